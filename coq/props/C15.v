(* C15 — identifier and NAME codecs are exact inverses on their whole domain.
   Property theorems only: each is closed by [exact] of a lemma of proofs/CodecProofs.v, which is
   stated over the definitions GENERATED from /repo (theories/gen/Codec.v). *)
From J1939 Require Import Base CodecGlue.
From J1939.gen Require Import Codec.
From J1939P Require Import CodecProofs.

(* T15.1: parse then compose is the identity on all 2^29 identifiers *)
Theorem C15_id_parse_compose : forall id, 0 <= id < 2 ^ 29 ->
  let '(p, g, s) := mid_parse id in mid_can_id p g s = id.
Proof. exact T15_1_id_parse_compose. Qed.
Print Assumptions C15_id_parse_compose.

(* T15.2: compose then parse returns the fields (reduced to their widths; identity in range) *)
Theorem C15_id_compose_parse : forall prio pgn sa,
  mid_parse (mid_can_id_of prio pgn sa) = (prio mod 8, pgn mod 262144, sa mod 256).
Proof. exact T15_2_id_compose_parse. Qed.
Print Assumptions C15_id_compose_parse.

Theorem C15_id_compose_parse_in_range : forall prio pgn sa,
  0 <= prio < 8 -> 0 <= pgn < 262144 -> 0 <= sa < 256 ->
  mid_parse (mid_can_id_of prio pgn sa) = (prio, pgn, sa).
Proof. exact T15_2_in_range. Qed.
Print Assumptions C15_id_compose_parse_in_range.

Theorem C15_id_29_bits : forall prio pgn sa, 0 <= mid_can_id_of prio pgn sa < 2 ^ 29.
Proof. exact id_in_29_bits. Qed.
Print Assumptions C15_id_29_bits.

(* T15.3: PGN value, fields and PDU classification agree *)
Theorem C15_pgn_value : forall dp pf ps,
  pgn_value_of dp pf ps = (dp mod 2) * 65536 + (pf mod 256) * 256 + ps mod 256.
Proof. exact T15_3_pgn_value. Qed.
Print Assumptions C15_pgn_value.

Theorem C15_pgn_fields : forall pgn,
  pgn_from_mid pgn = ((pgn / 65536) mod 2, (pgn / 256) mod 256, pgn mod 256).
Proof. exact T15_3_pgn_fields. Qed.
Print Assumptions C15_pgn_fields.

Theorem C15_pgn_roundtrip : forall pgn, 0 <= pgn < 262144 ->
  let '(dp, pf, ps) := pgn_from_mid pgn in pgn_value dp pf ps = pgn mod 131072.
Proof. exact T15_3_pgn_roundtrip. Qed.
Print Assumptions C15_pgn_roundtrip.

Theorem C15_pgn_fields_of_value : forall dp pf ps,
  0 <= dp < 2 -> 0 <= pf < 256 -> 0 <= ps < 256 -> pgn_from_mid (pgn_value dp pf ps) = (dp, pf, ps).
Proof. exact T15_3_fields_of_value. Qed.
Print Assumptions C15_pgn_fields_of_value.

Theorem C15_pdu_classification : forall pf, 0 <= pf < 256 ->
  (pgn_is_pdu1 pf = true <-> pf < 240) /\ (pgn_is_pdu2 pf = true <-> 240 <= pf) /\
  pgn_is_pdu1 pf = negb (pgn_is_pdu2 pf).
Proof. exact T15_3_pdu_classification. Qed.
Print Assumptions C15_pdu_classification.

(* T15.4: NAME *)
Theorem C15_name_fields_at_sae_positions : forall v,
  name_ctor_value v =
  (v mod 2 ^ 21, (v / 2 ^ 21) mod 2 ^ 11, (v / 2 ^ 32) mod 2 ^ 3, (v / 2 ^ 35) mod 2 ^ 5,
   (v / 2 ^ 40) mod 2 ^ 8, 0, (v / 2 ^ 49) mod 2 ^ 7, (v / 2 ^ 56) mod 2 ^ 4,
   (v / 2 ^ 60) mod 2 ^ 3, (v / 2 ^ 63) mod 2).
Proof. exact T15_4_name_fields_of_value. Qed.
Print Assumptions C15_name_fields_at_sae_positions.

Theorem C15_name_value_roundtrip : forall v, 0 <= v < 2 ^ 64 ->
  name_value_f (name_ctor_value v) = v - ((v / 2 ^ 48) mod 2) * 2 ^ 48.
Proof. exact T15_4_name_value_roundtrip. Qed.
Print Assumptions C15_name_value_roundtrip.

Theorem C15_name_fields_roundtrip : forall f,
  name_fields_in_range f -> name_ctor_value (name_value_f f) = f.
Proof. exact T15_4_name_fields_roundtrip. Qed.
Print Assumptions C15_name_fields_roundtrip.

Theorem C15_name_value_injective : forall f g,
  name_fields_in_range f -> name_fields_in_range g -> name_value_f f = name_value_f g -> f = g.
Proof. exact T15_4_name_value_injective. Qed.
Print Assumptions C15_name_value_injective.

Theorem C15_name_bytes_little_endian : forall v, 0 <= v < 2 ^ 64 ->
  le_value (name_bytes v) = v /\ bytes (name_bytes v) /\ length (name_bytes v) = 8%nat.
Proof. exact T15_4_name_bytes_le. Qed.
Print Assumptions C15_name_bytes_little_endian.

Theorem C15_name_bytes_roundtrip : forall v, 0 <= v < 2 ^ 64 ->
  name_ctor_bytes (name_bytes v) = name_ctor_value v.
Proof. exact T15_4_name_bytes_roundtrip. Qed.
Print Assumptions C15_name_bytes_roundtrip.

Theorem C15_name_value_idempotent : forall v, 0 <= v < 2 ^ 64 ->
  let w := name_value_f (name_ctor_value v) in
  0 <= w < 2 ^ 64 /\ name_value_f (name_ctor_value w) = w.
Proof. exact T15_4_name_value_idempotent. Qed.
Print Assumptions C15_name_value_idempotent.

(* C13 — a controller application sends application data only from an address it holds. *)
From J1939 Require Import Base CodecGlue Model21.
From J1939.gen Require Import Codec Tp21Gen CaGen.
From J1939P Require Import CodecProofs Flat ClaimProofs CaProofs.

(* T13.1 *)
Theorem C13_operational_address_invariant : forall c evs, ca_ok c -> ca_ok (fold_left ca_step evs c).
Proof. exact ca_ok_invariant. Qed.
Print Assumptions C13_operational_address_invariant.
Theorem C13_fresh_ca_ok : forall v pref byp, ca_ok (mk_ca v pref byp).
Proof. exact fresh_ca_ok. Qed.
Print Assumptions C13_fresh_ca_ok.
Theorem C13_null_address_unless_operational : forall c,
  c_state c <> ca_state_NORMAL -> ca_device_address c = addr_NULL.
Proof. exact device_address_null_unless_normal. Qed.
Print Assumptions C13_null_address_unless_operational.

(* T13.2 *)
Theorem C13_guard_send_pgn : forall n i c now dp pf ps prio data,
  nth_error (n_cas n) i = Some c -> c_state c <> ca_state_NORMAL ->
  ca_send_pgn n i now dp pf ps prio data = Raise n E_Runtime.
Proof. exact guard_send_pgn. Qed.
Print Assumptions C13_guard_send_pgn.
Theorem C13_guard_send_message : forall n i c prio pgn data,
  nth_error (n_cas n) i = Some c -> c_state c <> ca_state_NORMAL ->
  ca_send_message n i prio pgn data = Raise n E_Runtime.
Proof. exact guard_send_message. Qed.
Print Assumptions C13_guard_send_message.
Theorem C13_guard_send_request : forall n i c now dp pgn dest,
  nth_error (n_cas n) i = Some c -> c_state c <> ca_state_NORMAL -> pgn <> pgn_ADDRESSCLAIM ->
  ca_send_request n i now dp pgn dest = Raise n E_Runtime.
Proof. exact guard_send_request. Qed.
Print Assumptions C13_guard_send_request.

(* T13.3 *)
Theorem C13_send_message_uses_held_address : forall n i c a prio pgn data,
  nth_error (n_cas n) i = Some c -> c_state c = ca_state_NORMAL -> c_addr c = Some a ->
  flat (ca_send_message n i prio pgn data) =
  (n, [OTx {| f_id := mid_can_id_of prio pgn a; f_ext := true; f_fd := false; f_data := data |}], RDone 0).
Proof. exact send_message_uses_held_address. Qed.
Print Assumptions C13_send_message_uses_held_address.
Theorem C13_send_pgn_uses_held_address : forall n i c a now dp pf ps prio data,
  nth_error (n_cas n) i = Some c -> c_state c = ca_state_NORMAL -> c_addr c = Some a ->
  ca_send_pgn n i now dp pf ps prio data = send_pgn n now dp pf ps prio a data.
Proof. exact send_pgn_uses_held_address. Qed.
Print Assumptions C13_send_pgn_uses_held_address.
Theorem C13_single_frame_source_address : forall n now dp pf ps prio a data,
  len data <= 8 -> 0 <= a < 256 ->
  exists id, flat (send_pgn n now dp pf ps prio a data) = (n, [OTx {| f_id := id; f_ext := true; f_fd := false; f_data := data |}], RDone 1)
             /\ snd (mid_parse id) = a.
Proof. exact send_pgn_single_frame. Qed.
Print Assumptions C13_single_frame_source_address.
Theorem C13_request_for_claim_from_null : forall n i c now dp dest,
  nth_error (n_cas n) i = Some c -> c_state c <> ca_state_NORMAL ->
  exists id, flat (ca_send_request n i now dp pgn_ADDRESSCLAIM dest) =
             (n, [OTx {| f_id := id; f_ext := true; f_fd := false; f_data := ca_request_payload pgn_ADDRESSCLAIM |}], RDone 0)
             /\ snd (mid_parse id) = addr_NULL.
Proof. exact request_for_claim_from_null. Qed.
Print Assumptions C13_request_for_claim_from_null.
Theorem C13_claim_frame_sources : forall c m c' outs x,
  ca_claim c m = (c', outs) -> In x outs ->
  snd x = c_name c /\ (fst x = addr_NULL \/ fst x = c_ann c' \/ c_addr c = Some (fst x)).
Proof. exact claim_frames_sources. Qed.
Print Assumptions C13_claim_frame_sources.

From J1939 Require Import SkelDefs FlowDefs.
From J1939.gen Require Import SkelGen.
From J1939P Require Import FlowProofs OrderProofs.

(* "again as soon as it has lost its address": the loss (state, address) is committed before the cannot-claim / re-claim
   frame is handed to the bus (generated skeleton) — there is no window in which a send is still accepted *)
Theorem C13_loss_committed_before_frame : never_commits_after_send order_ca.
Proof. exact order_ca_ok. Qed.
Print Assumptions C13_loss_committed_before_frame.

(* C10 — transport capacity is conserved over any history of good and failed transfers. *)
From J1939 Require Import Base CodecGlue Model21 Model22.
From J1939.gen Require Import Codec Tp21Gen CaGen Tp22Gen.
From J1939P Require Import CodecProofs Flat Tp21Seg Tp21Resp Tp21Orig TimeoutProofs MpgProofs PoolProofs ConserveProofs.
From J1939 Require Import SkelDefs FlowDefs.
From J1939.gen Require Import SkelGen.
From J1939P Require Import FlowProofs FlowSend22.

(* T10.2: inbound sessions never consume or release the stack's own outbound capacity — for EVERY frame *)
Theorem C10_inbound_neutral : forall m now can_id data, skel (fnode22 (notify22 m now can_id data)) = skel m.
Proof. exact inbound_neutral. Qed.
Print Assumptions C10_inbound_neutral.
Theorem C10_inbound_neutral_listener : forall m now can_id ext remote err data,
  skel (fnode22 (listener22 m now can_id ext remote err data)) = skel m.
Proof. exact inbound_neutral_listener. Qed.
Print Assumptions C10_inbound_neutral_listener.
Theorem C10_invariant_kept_by_inbound : forall m now can_id data, pool_inv m -> pool_inv (fnode22 (notify22 m now can_id data)).
Proof. exact pool_inv_inbound. Qed.
Print Assumptions C10_invariant_kept_by_inbound.

(* T10.1: every exit of an originator session (Model22.snd_pass22: delete, then return the number to the pool of
   the session's kind) keeps the invariant: the flag of no OTHER session is touched *)
Theorem C10_release_keeps_invariant : forall m h b,
  pool_inv m -> tget (f_snd m) h = Some b ->
  let m1 := set_fsnd m (tdel (f_snd m) h) in
  forall m2, (if t_dst b =? addr_GLOBAL
              then exists l, pool_put (f_bam m1) (t_session b) = Some l /\ m2 = set_fbam m1 l
              else exists l, pool_put (f_rts m1) (t_session b) = Some l /\ m2 = set_frts m1 l) ->
  pool_inv m2.
Proof. exact release_preserves. Qed.
Print Assumptions C10_release_keeps_invariant.

Theorem C10_allocation_keeps_invariant : forall m s pool' sa dest b,
  pool_inv m -> keys_ok m -> 0 <= sa < 256 -> 0 <= dest < 256 ->
  pool_get (if dest =? addr_GLOBAL then f_bam m else f_rts m) 0 = Some (s, pool') ->
  t_session b = s -> t_dst b = dest -> t_src b = sa ->
  let m0 := if dest =? addr_GLOBAL then set_fbam m pool' else set_frts m pool' in
  let m1 := set_fsnd m0 (tset (f_snd m0) (tp22_hash s sa dest) b) in
  pool_inv m1 /\ keys_ok m1 /\ tget (f_snd m) (tp22_hash s sa dest) = None.
Proof. exact allocation_preserves. Qed.
Print Assumptions C10_allocation_keeps_invariant.

(* T10.3: full capacity is available exactly when every flag is free; refusal iff the pool is exhausted *)
Theorem C10_refusal_iff_exhausted : forall m now dp pf ps prio sa data tl ff,
  tp22_TP < len data ->
  let global := (ps =? addr_GLOBAL) || pgn_is_pdu2_of 0 pf ps in
  Forall (fun b => b = false) (if global then f_bam m else f_rts m) ->
  flat22 (send_pgn22 m now dp pf ps prio sa data tl ff) = (m, [], RDone 0).
Proof. exact refused_when_pool_exhausted. Qed.
Print Assumptions C10_refusal_iff_exhausted.

(* T10.4 (J1939-21): send_pgn of a long message is refused iff a transfer on the pair is in progress, and then nothing changes *)
Theorem C10_j1939_21_busy_pair_refused : forall n now dp pf ps prio sa data b,
  8 < len data ->
  let dest := if (ps =? addr_GLOBAL) || pgn_is_pdu2_of 0 pf ps then addr_GLOBAL else ps in
  tget (n_snd n) (tp21_hash sa dest) = Some b ->
  flat (send_pgn n now dp pf ps prio sa data) = (n, [], RDone 0).
Proof. exact send_pgn_busy. Qed.
Print Assumptions C10_j1939_21_busy_pair_refused.
Theorem C10_j1939_21_free_pair_accepted : forall n now dp pf ps prio sa data,
  8 < len data -> 0 <= pf < 240 -> 0 <= ps < 255 -> 0 <= dp < 2 ->
  tget (n_snd n) (tp21_hash sa ps) = None ->
  fres (send_pgn n now dp pf ps prio sa data) = RDone 1.
Proof. intros. unfold fres. rewrite send_pgn_rts by assumption. reflexivity. Qed.
Print Assumptions C10_j1939_21_free_pair_accepted.
(* T10.5 (J1939-21): no immortal session: past its deadline a waiting session is removed by the next pass *)
Theorem C10_j1939_21_waiting_session_expires : forall key now nw n k b,
  tget (n_snd n) key = Some b -> s_state b = ST_WAITING_CTS -> s_deadline b <> 0 -> s_deadline b <= now ->
  flat (snd_pass [key] now nw n k) =
  let n' := set_snd n (tdel (n_snd n) key) in
  let '(s, os, r) := flat (k n' nw) in
  (s, OTx (tp21_abort (s_src b) (s_dst b) tp21_reason_TIMEOUT (s_pgn b)) :: os, r).
Proof. exact snd_timeout_releases. Qed.
Print Assumptions C10_j1939_21_waiting_session_expires.

(* T10.1 (history form, J1939-22): after ANY sequence of submissions (accepted or refused), received frames
   (well-formed or not: aborts, stray CTS / EOMA, foreign traffic, junk) and job-thread iterations at ANY instants,
   the conservation invariant Inv holds — every session in flight holds the taken flag of its own number in the pool
   of its kind, no two sessions of a kind share a number, and every taken flag is held by a session (no leak) *)
Theorem C10_capacity_conserved_any_history : forall maxp civ biv evs,
  Forall hev_ok evs -> Inv (fold_left hstep evs (init_node22 maxp civ biv)).
Proof. exact capacity_conserved_any_history. Qed.
Print Assumptions C10_capacity_conserved_any_history.

(* ... so once every session of such a history has ended, the full capacity (8 + 4) is available again *)
Theorem C10_idle_stack_has_full_capacity : forall maxp civ biv evs,
  Forall hev_ok evs -> let m := fold_left hstep evs (init_node22 maxp civ biv) in
  f_snd m = [] -> Forall (fun b => b = true) (f_rts m) /\ length (f_rts m) = tp22_pool_rts /\
                  Forall (fun b => b = true) (f_bam m) /\ length (f_bam m) = tp22_pool_bam.
Proof. exact idle_after_any_history. Qed.
Print Assumptions C10_idle_stack_has_full_capacity.

(* the same for every handler taken alone, closed under interference: whatever the receive path of the same stack
   does between an emission of the handler and its continuation (re-entrant delivery at zero latency, pre-emption
   by the receive thread — any change that keeps the session skeleton, which is what EVERY received frame is,
   C10_inbound_guarantee), the handler still ends in an Inv state *)
Theorem C10_handlers_keep_invariant_under_interference : forall m e, Inv m -> hev_ok e -> guar Inv (hact m e).
Proof. exact hact_inv. Qed.
Print Assumptions C10_handlers_keep_invariant_under_interference.
Theorem C10_inbound_guarantee : forall m now can_id ext remote err data,
  guar (fun s => skel s = skel m) (listener22 m now can_id ext remote err data).
Proof. exact inbound_guar_listener. Qed.
Print Assumptions C10_inbound_guarantee.

(* T10.6 (structural, on skeletons GENERATED from the current source): J1939_22.send_pgn never returns — in particular
   never refuses — nor raises on a path on which it has taken a session number without storing the session or giving the
   number back ("send_pgn refuses without side effects"), and an iteration of the FD job pass never removes an originator
   session without returning its number; for every path, whatever the conditions evaluate to *)
Theorem C10_checker_sound : forall t, flow_ok t = true -> forall hh, exec t false (Term hh) -> hh = false.
Proof. exact flow_ok_no_leak. Qed.
Print Assumptions C10_checker_sound.
Theorem C10_send_pgn_never_leaks_a_session_number : forall hh, exec flow_send22 false (Term hh) -> hh = false.
Proof. exact send_pgn22_never_leaks_a_session_number. Qed.
Print Assumptions C10_send_pgn_never_leaks_a_session_number.
Theorem C10_job_pass_returns_every_removed_session : forall hh, exec flow_job22 false (Term hh) -> hh = false.
Proof. exact job_pass22_returns_every_removed_session. Qed.
Print Assumptions C10_job_pass_returns_every_removed_session.

From J1939P Require Net21 Net21Proofs Net21Seq.

(* T10.17: after a completed transfer the two nodes are as they were: the final state of the closed loop meets the premises
   of the closed-loop theorem itself *)
Theorem C10_completed_transfer_restores_the_pair : forall prio sa dest dp pf p t0 A0 B0,
  0 <= prio < 8 -> 0 <= sa < 255 -> 0 <= dest < 255 -> 0 <= pf < 240 -> 0 <= dp < 2 -> 8 < len p <= 1785 -> 0 < t0 ->
  n_snd A0 = [] /\ n_rcv A0 = [] /\ n_timers A0 = [] /\ n_cmdt_iv A0 = None /\ accepts A0 sa = true /\ 1 <= n_maxp A0 ->
  n_snd B0 = [] /\ n_rcv B0 = [] /\ n_timers B0 = [] /\ accepts B0 dest = true /\ 1 <= n_maxp B0 ->
  let pv := dp * 65536 + pf * 256 in
  let num := Z.of_nat (npk (length p)) in
  exists j, let s := Net21.steps j (Net21.net_send (Net21.net0 A0 B0 t0) dp pf dest prio sa p) in
    (Net21.qa s = [] /\ Net21.qb s = [] /\ t0 <= Net21.clk s /\
     Net21.evb s = deliveries B0 7 pv sa dest p /\
     Net21.wab s = tp21_rts sa dest prio pv (len p) num (Z.min (n_maxp A0) num)
             :: map (fun k => tp21_dt sa dest (dt_payload p (Z.of_nat k))) (seq 0 (npk (length p)))) /\
    (n_snd (Net21.na s) = [] /\ n_rcv (Net21.na s) = [] /\ n_timers (Net21.na s) = [] /\ n_cmdt_iv (Net21.na s) = None /\
     accepts (Net21.na s) sa = true /\ 1 <= n_maxp (Net21.na s)) /\
    (n_snd (Net21.nb s) = [] /\ n_rcv (Net21.nb s) = [] /\ n_timers (Net21.nb s) = [] /\ accepts (Net21.nb s) dest = true /\
     1 <= n_maxp (Net21.nb s)) /\
    n_maxp (Net21.na s) = n_maxp A0 /\ n_subs (Net21.nb s) = n_subs B0 /\ n_cas (Net21.nb s) = n_cas B0.
Proof. exact Net21Proofs.closed_loop_restores. Qed.
Print Assumptions C10_completed_transfer_restores_the_pair.

(* T10.18 / T01.12: a HISTORY of transfers.  Any number of J1939-21 connection-mode transfers (any payloads of 9..1785 bytes, any
   PGNs and priorities) run one after the other between two model nodes, each submitted when the network has come to rest:
   there is a run in which ALL of them complete — after every one the nodes meet the premises of the closed-loop theorem
   again (nothing pending, same configuration, same subscribers), so send_pgn is accepted again and the next one
   delivers; B's subscribers have got every payload exactly once, in order, and the wire carries exactly the frames of
   every transfer, in order.  (seq_reach: submit, run j steps, submit the next ...) *)
Theorem C10_sequence_of_transfers_all_deliver : forall sa dest, 0 <= sa < 255 -> 0 <= dest < 255 ->
  forall ms s, Forall Net21Seq.msg_ok ms -> Net21.qa s = [] -> Net21.qb s = [] -> 0 < Net21.clk s ->
  Net21Seq.premA sa (Net21.na s) -> Net21Seq.premB dest (Net21.nb s) ->
  exists s', Net21Seq.seq_reach sa dest s ms s' /\
    Net21.qa s' = [] /\ Net21.qb s' = [] /\ Net21Seq.premA sa (Net21.na s') /\ Net21Seq.premB dest (Net21.nb s') /\
    Net21.evb s' = Net21.evb s ++ concat (map (fun m => deliveries (Net21.nb s) 7 (Net21Seq.m_dp m * 65536 + Net21Seq.m_pf m * 256) sa dest
                                                                  (Net21Seq.m_data m)) ms) /\
    Net21.wab s' = Net21.wab s ++ concat (map (Net21Seq.wire_of sa dest (n_maxp (Net21.na s))) ms).
Proof. exact Net21Seq.sequence_delivers. Qed.
Print Assumptions C10_sequence_of_transfers_all_deliver.

From J1939P Require Net21Bam Net21BamSeq.

(* T10.21: a HISTORY of broadcasts.  Any number of J1939-21 broadcasts — PDU1 groups to the global address, PDU2 groups with any
   group extension, any payloads of 9..1785 bytes — sent one after the other, each when the network has come to rest, ALL reach
   the listeners of the other node exactly once, in order; the completed broadcast restores the premises of its own theorem
   (nothing pending, same packet interval, same listeners), the wire carries exactly the frames of every broadcast *)
Theorem C10_sequence_of_broadcasts_all_deliver : forall sa iv, 0 <= sa < 255 -> 0 < iv < tp21_T1 ->
  forall ms s, Forall Net21BamSeq.bmsg_ok ms -> Net21.qa s = [] -> Net21.qb s = [] -> 0 < Net21.clk s ->
  Net21BamSeq.bpremA iv (Net21.na s) -> Net21BamSeq.bpremB (Net21.nb s) ->
  exists s', Net21BamSeq.bseq_reach sa s ms s' /\
    Net21.qa s' = [] /\ Net21.qb s' = [] /\ Net21BamSeq.bpremA iv (Net21.na s') /\ Net21BamSeq.bpremB (Net21.nb s') /\
    Net21.evb s' = Net21.evb s ++ concat (map (fun m => deliveries (Net21.nb s) 7
                       (Net21Bam.bam_pgn (Net21BamSeq.b_dp m) (Net21BamSeq.b_pf m) (Net21BamSeq.b_ps m)) sa addr_GLOBAL (Net21BamSeq.b_data m)) ms) /\
    Net21.wab s' = Net21.wab s ++ concat (map (Net21BamSeq.bwire_of sa) ms).
Proof. exact Net21BamSeq.broadcast_sequence_delivers. Qed.
Print Assumptions C10_sequence_of_broadcasts_all_deliver.

From J1939P Require Net22 Net22Proofs Net22Seq.

(* T10.20 / T02.11: a HISTORY of FD transfers.  Any number of J1939-22 connection-mode transfers (any payloads of more than 60
   bytes, any PGNs and priorities) run one after the other between two FD model nodes, each submitted when the network
   has come to rest: ALL of them complete — after every one the nodes meet the premises of the FD closed-loop theorem again
   (nothing pending, same configuration and subscribers, the session number back in the pool), so the next one is accepted
   and delivers; B's subscribers have got every payload exactly once, in order, and the wire carries exactly the frames of
   every transfer, in order *)
Theorem C10_fd_sequence_of_transfers_all_deliver : forall sa dest, 0 <= sa < 255 -> 0 <= dest < 255 ->
  forall ms s, Forall Net22Seq.msg22_ok ms -> Net22.pa s = [] -> Net22.pb s = [] -> 0 < Net22.fclk s ->
  Net22Seq.premA22 sa (Net22.fa s) -> Net22Seq.premB22 dest (Net22.fb s) ->
  exists s', Net22Seq.seq_reach22 sa dest s ms s' /\
    Net22.pa s' = [] /\ Net22.pb s' = [] /\ Net22Seq.premA22 sa (Net22.fa s') /\ Net22Seq.premB22 dest (Net22.fb s') /\
    Net22.evb2 s' = Net22.evb2 s ++ concat (map (fun m => deliveries (base (Net22.fb s)) 7 (Net21Seq.m_dp m * 65536 + Net21Seq.m_pf m * 256)
                                                                     sa dest (Net21Seq.m_data m)) ms) /\
    Net22.wab2 s' = Net22.wab2 s ++ concat (map (Net22Seq.wire22_of sa dest (n_maxp (base (Net22.fa s)))) ms).
Proof. exact Net22Seq.sequence22_delivers. Qed.
Print Assumptions C10_fd_sequence_of_transfers_all_deliver.

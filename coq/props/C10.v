(* C10 — transport capacity is conserved over any history of good and failed transfers. *)
From J1939 Require Import Base CodecGlue Model21 Model22.
From J1939.gen Require Import Codec Tp21Gen CaGen Tp22Gen.
From J1939P Require Import CodecProofs Flat Tp21Seg Tp21Resp Tp21Orig TimeoutProofs MpgProofs PoolProofs ConserveProofs.
From J1939 Require Import SkelDefs FlowDefs.
From J1939.gen Require Import SkelGen.
From J1939P Require Import FlowProofs FlowSend22.

(* T10.2: inbound sessions never consume or release the stack's own outbound capacity — for EVERY frame *)
Theorem C10_inbound_neutral : forall m now can_id data, skel (fnode22 (notify22 m now can_id data)) = skel m.
Proof. exact inbound_neutral. Qed.
Print Assumptions C10_inbound_neutral.
Theorem C10_inbound_neutral_listener : forall m now can_id ext remote err data,
  skel (fnode22 (listener22 m now can_id ext remote err data)) = skel m.
Proof. exact inbound_neutral_listener. Qed.
Print Assumptions C10_inbound_neutral_listener.
Theorem C10_invariant_kept_by_inbound : forall m now can_id data, pool_inv m -> pool_inv (fnode22 (notify22 m now can_id data)).
Proof. exact pool_inv_inbound. Qed.
Print Assumptions C10_invariant_kept_by_inbound.

(* T10.1: every exit of an originator session (Model22.snd_pass22: delete, then return the number to the pool of
   the session's kind) keeps the invariant: the flag of no OTHER session is touched *)
Theorem C10_release_keeps_invariant : forall m h b,
  pool_inv m -> tget (f_snd m) h = Some b ->
  let m1 := set_fsnd m (tdel (f_snd m) h) in
  forall m2, (if t_dst b =? addr_GLOBAL
              then exists l, pool_put (f_bam m1) (t_session b) = Some l /\ m2 = set_fbam m1 l
              else exists l, pool_put (f_rts m1) (t_session b) = Some l /\ m2 = set_frts m1 l) ->
  pool_inv m2.
Proof. exact release_preserves. Qed.
Print Assumptions C10_release_keeps_invariant.

Theorem C10_allocation_keeps_invariant : forall m s pool' sa dest b,
  pool_inv m -> keys_ok m -> 0 <= sa < 256 -> 0 <= dest < 256 ->
  pool_get (if dest =? addr_GLOBAL then f_bam m else f_rts m) 0 = Some (s, pool') ->
  t_session b = s -> t_dst b = dest -> t_src b = sa ->
  let m0 := if dest =? addr_GLOBAL then set_fbam m pool' else set_frts m pool' in
  let m1 := set_fsnd m0 (tset (f_snd m0) (tp22_hash s sa dest) b) in
  pool_inv m1 /\ keys_ok m1 /\ tget (f_snd m) (tp22_hash s sa dest) = None.
Proof. exact allocation_preserves. Qed.
Print Assumptions C10_allocation_keeps_invariant.

(* T10.3: full capacity is available exactly when every flag is free; refusal iff the pool is exhausted *)
Theorem C10_refusal_iff_exhausted : forall m now dp pf ps prio sa data tl ff,
  tp22_TP < len data ->
  let global := (ps =? addr_GLOBAL) || pgn_is_pdu2_of 0 pf ps in
  Forall (fun b => b = false) (if global then f_bam m else f_rts m) ->
  flat22 (send_pgn22 m now dp pf ps prio sa data tl ff) = (m, [], RDone 0).
Proof. exact refused_when_pool_exhausted. Qed.
Print Assumptions C10_refusal_iff_exhausted.

(* T10.4 (J1939-21): send_pgn of a long message is refused iff a transfer on the pair is in progress, and then nothing changes *)
Theorem C10_j1939_21_busy_pair_refused : forall n now dp pf ps prio sa data b,
  8 < len data ->
  let dest := if (ps =? addr_GLOBAL) || pgn_is_pdu2_of 0 pf ps then addr_GLOBAL else ps in
  tget (n_snd n) (tp21_hash sa dest) = Some b ->
  flat (send_pgn n now dp pf ps prio sa data) = (n, [], RDone 0).
Proof. exact send_pgn_busy. Qed.
Print Assumptions C10_j1939_21_busy_pair_refused.
Theorem C10_j1939_21_free_pair_accepted : forall n now dp pf ps prio sa data,
  8 < len data -> 0 <= pf < 240 -> 0 <= ps < 255 -> 0 <= dp < 2 ->
  tget (n_snd n) (tp21_hash sa ps) = None ->
  fres (send_pgn n now dp pf ps prio sa data) = RDone 1.
Proof. intros. unfold fres. rewrite send_pgn_rts by assumption. reflexivity. Qed.
Print Assumptions C10_j1939_21_free_pair_accepted.
(* T10.5 (J1939-21): no immortal session: past its deadline a waiting session is removed by the next pass *)
Theorem C10_j1939_21_waiting_session_expires : forall key now nw n k b,
  tget (n_snd n) key = Some b -> s_state b = ST_WAITING_CTS -> s_deadline b <> 0 -> s_deadline b <= now ->
  flat (snd_pass [key] now nw n k) =
  let n' := set_snd n (tdel (n_snd n) key) in
  let '(s, os, r) := flat (k n' nw) in
  (s, OTx (tp21_abort (s_src b) (s_dst b) tp21_reason_TIMEOUT (s_pgn b)) :: os, r).
Proof. exact snd_timeout_releases. Qed.
Print Assumptions C10_j1939_21_waiting_session_expires.

(* T10.1 (history form, J1939-22): after ANY sequence of submissions (accepted or refused), received frames
   (well-formed or not: aborts, stray CTS / EOMA, foreign traffic, junk) and job-thread iterations at ANY instants,
   the conservation invariant Inv holds — every session in flight holds the taken flag of its own number in the pool
   of its kind, no two sessions of a kind share a number, and every taken flag is held by a session (no leak) *)
Theorem C10_capacity_conserved_any_history : forall maxp civ biv evs,
  Forall hev_ok evs -> Inv (fold_left hstep evs (init_node22 maxp civ biv)).
Proof. exact capacity_conserved_any_history. Qed.
Print Assumptions C10_capacity_conserved_any_history.

(* ... so once every session of such a history has ended, the full capacity (8 + 4) is available again *)
Theorem C10_idle_stack_has_full_capacity : forall maxp civ biv evs,
  Forall hev_ok evs -> let m := fold_left hstep evs (init_node22 maxp civ biv) in
  f_snd m = [] -> Forall (fun b => b = true) (f_rts m) /\ length (f_rts m) = tp22_pool_rts /\
                  Forall (fun b => b = true) (f_bam m) /\ length (f_bam m) = tp22_pool_bam.
Proof. exact idle_after_any_history. Qed.
Print Assumptions C10_idle_stack_has_full_capacity.

(* the same for every handler taken alone, closed under interference: whatever the receive path of the same stack
   does between an emission of the handler and its continuation (re-entrant delivery at zero latency, pre-emption
   by the receive thread — any change that keeps the session skeleton, which is what EVERY received frame is,
   C10_inbound_guarantee), the handler still ends in an Inv state *)
Theorem C10_handlers_keep_invariant_under_interference : forall m e, Inv m -> hev_ok e -> guar Inv (hact m e).
Proof. exact hact_inv. Qed.
Print Assumptions C10_handlers_keep_invariant_under_interference.
Theorem C10_inbound_guarantee : forall m now can_id ext remote err data,
  guar (fun s => skel s = skel m) (listener22 m now can_id ext remote err data).
Proof. exact inbound_guar_listener. Qed.
Print Assumptions C10_inbound_guarantee.

(* T10.6 (structural, on skeletons GENERATED from the current source): J1939_22.send_pgn never returns — in particular
   never refuses — nor raises on a path on which it has taken a session number without storing the session or giving the
   number back ("send_pgn refuses without side effects"), and an iteration of the FD job pass never removes an originator
   session without returning its number; for every path, whatever the conditions evaluate to *)
Theorem C10_checker_sound : forall t, flow_ok t = true -> forall hh, exec t false (Term hh) -> hh = false.
Proof. exact flow_ok_no_leak. Qed.
Print Assumptions C10_checker_sound.
Theorem C10_send_pgn_never_leaks_a_session_number : forall hh, exec flow_send22 false (Term hh) -> hh = false.
Proof. exact send_pgn22_never_leaks_a_session_number. Qed.
Print Assumptions C10_send_pgn_never_leaks_a_session_number.
Theorem C10_job_pass_returns_every_removed_session : forall hh, exec flow_job22 false (Term hh) -> hh = false.
Proof. exact job_pass22_returns_every_removed_session. Qed.
Print Assumptions C10_job_pass_returns_every_removed_session.

(* C05 — messages reach only the addressed applications; foreign traffic is ignored.
   (both data link layers, the ECU delivery rule and the MessageListener.) *)
From J1939 Require Import Base CodecGlue Model21 Model22.
From J1939.gen Require Import Codec Tp21Gen CaGen Tp22Gen.
From J1939P Require Import CodecProofs Flat FilterProofs MpgProofs PoolProofs FilterProofs22.

(* T05.1: any PDU1 frame (application data, request, TP.CM with any control byte, TP.DT, address claim ...)
   for a destination the stack does not accept: no state change, no output, no delivery *)
Theorem C05_foreign_frame_ignored : forall n now prio pf dest sa data,
  0 <= prio < 8 -> 0 <= pf < 240 -> 0 <= dest < 256 -> 0 <= sa < 256 -> accepts n dest = false ->
  notify n now (mid_can_id_of prio (pgn_value_of 0 pf dest) sa) data = Done n 0.
Proof. exact notify_foreign. Qed.
Print Assumptions C05_foreign_frame_ignored.

(* which handler an accepted PDU1 frame reaches *)
Theorem C05_dispatch : forall n now prio pf dest sa data,
  0 <= prio < 8 -> 0 <= pf < 240 -> 0 <= dest < 256 -> 0 <= sa < 256 ->
  notify n now (mid_can_id_of prio (pgn_value_of 0 pf dest) sa) data =
  if negb (accepts n dest) then Done n 0
  else if pf * 256 =? pgn_ADDRESSCLAIM then claim_fanout 0 (length (n_cas n)) sa data n (fun n' => Done n' 0)
  else if pf * 256 =? pgn_REQUEST then request_fanout 0 (length (n_cas n)) sa dest data n (fun n' => Done n' 0)
  else if pf * 256 =? pgn_TP_CM then process_tp_cm prio sa dest data now n
  else if pf * 256 =? pgn_DATATRANSFER then process_tp_dt prio sa dest data now n
  else notify_subscribers prio (pf * 256) sa dest data n (fun n' => Done n' 0).
Proof. exact notify_pdu1. Qed.
Print Assumptions C05_dispatch.

(* T05.2: delivery fires exactly the matching subscribers, in registration order, once each *)
Theorem C05_delivery_is_filter : forall prio pgn sa dest data n k,
  flat (notify_subscribers prio pgn sa dest data n k) =
  let '(s, os, r) := flat (k n) in (s, deliveries n prio pgn sa dest data ++ os, r).
Proof. exact flat_notify_subscribers. Qed.
Print Assumptions C05_delivery_is_filter.

Theorem C05_delivery_rule : forall n s dest,
  sub_matches n s dest = true <->
  match sb_filt s with
  | FNone => True
  | FAddr a => dest = addr_GLOBAL \/ dest = a
  | FCa i => dest = addr_GLOBAL \/
             exists c, nth_error (n_cas n) i = Some c /\ c_state c = ca_state_NORMAL /\ c_addr c = Some dest
  end.
Proof. exact delivery_rule. Qed.
Print Assumptions C05_delivery_rule.

Theorem C05_no_address_nothing_specific : forall n s i c dest,
  sb_filt s = FCa i -> nth_error (n_cas n) i = Some c -> c_state c <> ca_state_NORMAL -> dest <> addr_GLOBAL ->
  sub_matches n s dest = false.
Proof. exact no_address_nothing_specific. Qed.
Print Assumptions C05_no_address_nothing_specific.

(* T05.4 *)
Theorem C05_listener_filter : forall n now id ext remote err data,
  listener n now id ext remote err data =
  if ext && negb remote && negb err then catch (notify n now id data) else Done n 0.
Proof. exact listener_filter. Qed.
Print Assumptions C05_listener_filter.
Theorem C05_listener_contains_exceptions : forall n now id ext remote err data,
  exists r, fres (listener n now id ext remote err data) = RDone r.
Proof. exact listener_contains_exceptions. Qed.
Print Assumptions C05_listener_contains_exceptions.

(* T05.5 *)
Theorem C05_bystander_untouched : forall n frames,
  Forall pdu1_ok frames -> Forall (fun f => accepts n (p_dest f) = false) frames ->
  fold_left feed_frame frames (n, []) = (n, []).
Proof. exact bystander_untouched. Qed.
Print Assumptions C05_bystander_untouched.

(* ------------------------------------------------------------------------------------------------------------------
   The same at full strength — EVERY identifier (any priority, data page, extended data page; not only identifiers a
   conforming sender composes): the PDU-format byte below 240 and a destination byte the stack does not accept are all
   that matters — and for BOTH data link layers. *)
Theorem C05_foreign_frame_ignored_any_identifier : forall n now id data,
  id_pf id < 240 -> accepts n (id_ps id) = false -> notify n now id data = Done n 0.
Proof. exact notify_foreign_any_id. Qed.
Print Assumptions C05_foreign_frame_ignored_any_identifier.

Theorem C05_fd_foreign_frame_ignored_any_identifier : forall m now id data,
  id_pf id < 240 -> accepts (base m) (id_ps id) = false -> notify22 m now id data = Done m 0.
Proof. exact notify22_foreign_any_id. Qed.
Print Assumptions C05_fd_foreign_frame_ignored_any_identifier.

(* the identifiers a sender composes, with either data page, are instances *)
Theorem C05_fd_foreign_frame_ignored : forall m now prio dp pf dest sa data,
  0 <= prio < 8 -> 0 <= dp < 2 -> 0 <= pf < 240 -> 0 <= dest < 256 -> 0 <= sa < 256 ->
  accepts (base m) dest = false ->
  notify22 m now (mid_can_id_of prio (pgn_value_of dp pf dest) sa) data = Done m 0.
Proof. exact notify22_foreign. Qed.
Print Assumptions C05_fd_foreign_frame_ignored.

Theorem C05_foreign_frame_ignored_either_data_page : forall n now prio dp pf dest sa data,
  0 <= prio < 8 -> 0 <= dp < 2 -> 0 <= pf < 240 -> 0 <= dest < 256 -> 0 <= sa < 256 ->
  accepts n dest = false ->
  notify n now (mid_can_id_of prio (pgn_value_of dp pf dest) sa) data = Done n 0.
Proof. exact notify_foreign_dp. Qed.
Print Assumptions C05_foreign_frame_ignored_either_data_page.

(* the FD listener: only extended data frames are forwarded, every exception is contained *)
Theorem C05_fd_listener_filter : forall m now id ext remote err data,
  listener22 m now id ext remote err data =
  if ext && negb remote && negb err then catch (notify22 m now id data) else Done m 0.
Proof. exact listener22_filter. Qed.
Print Assumptions C05_fd_listener_filter.
Theorem C05_fd_listener_contains_exceptions : forall m now id ext remote err data,
  exists r, fres22 (listener22 m now id ext remote err data) = RDone r.
Proof. exact listener22_contains_exceptions. Qed.
Print Assumptions C05_fd_listener_contains_exceptions.

(* bystanders: ANY sequence of frames with ANY identifiers whose destination byte the stack does not accept, handed to the
   real entry point (the listener), leaves the stack exactly as it was and makes it emit nothing — both layers *)
Theorem C05_bystander_untouched_any_identifiers : forall n frames,
  Forall (foreign_to n) frames -> fold_left feed_raw frames (n, []) = (n, []).
Proof. exact bystander_untouched_any_id. Qed.
Print Assumptions C05_bystander_untouched_any_identifiers.
Theorem C05_fd_bystander_untouched_any_identifiers : forall m frames,
  Forall (foreign_to (base m)) frames -> fold_left feed_raw22 frames (m, []) = (m, []).
Proof. exact bystander22_untouched_any_id. Qed.
Print Assumptions C05_fd_bystander_untouched_any_identifiers.

(* a PDU2 frame on the FD layer (not one of the protocol's own groups) is a broadcast whatever its PS byte says *)
Theorem C05_fd_pdu2_is_broadcast : forall m now id data,
  240 <= id_pf id ->
  let pgnf := (id / 256) mod 262144 in
  let pv := Z.land (pgn_value ((pgnf / 65536) mod 2) (id_pf id) (id_ps id)) 130816 in
  pv <> pgn_FEFF_MULTI_PG -> pv <> pgn_ADDRESSCLAIM -> pv <> pgn_REQUEST -> pv <> pgn_FD_TP_CM -> pv <> pgn_FD_TP_DT ->
  pv <> pgn_TP_CM -> pv <> pgn_DATATRANSFER ->
  notify22 m now id data =
  notify_subscribers22 ((id / 67108864) mod 8) (pgn_value ((pgnf / 65536) mod 2) (id_pf id) (id_ps id)) (id mod 256)
                       addr_GLOBAL data m (fun m' => Done m' 0).
Proof. exact notify22_pdu2. Qed.
Print Assumptions C05_fd_pdu2_is_broadcast.

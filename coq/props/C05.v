(* C05 — messages reach only the addressed applications; foreign traffic is ignored.
   (J1939-21 layer, ECU delivery rule and MessageListener; the J1939-22 layer is covered by C02's model.) *)
From J1939 Require Import Base CodecGlue Model21.
From J1939.gen Require Import Codec Tp21Gen CaGen.
From J1939P Require Import CodecProofs Flat FilterProofs.

(* T05.1: any PDU1 frame (application data, request, TP.CM with any control byte, TP.DT, address claim ...)
   for a destination the stack does not accept: no state change, no output, no delivery *)
Theorem C05_foreign_frame_ignored : forall n now prio pf dest sa data,
  0 <= prio < 8 -> 0 <= pf < 240 -> 0 <= dest < 256 -> 0 <= sa < 256 -> accepts n dest = false ->
  notify n now (mid_can_id_of prio (pgn_value_of 0 pf dest) sa) data = Done n 0.
Proof. exact notify_foreign. Qed.
Print Assumptions C05_foreign_frame_ignored.

(* which handler an accepted PDU1 frame reaches *)
Theorem C05_dispatch : forall n now prio pf dest sa data,
  0 <= prio < 8 -> 0 <= pf < 240 -> 0 <= dest < 256 -> 0 <= sa < 256 ->
  notify n now (mid_can_id_of prio (pgn_value_of 0 pf dest) sa) data =
  if negb (accepts n dest) then Done n 0
  else if pf * 256 =? pgn_ADDRESSCLAIM then claim_fanout 0 (length (n_cas n)) sa data n (fun n' => Done n' 0)
  else if pf * 256 =? pgn_REQUEST then request_fanout 0 (length (n_cas n)) sa dest data n (fun n' => Done n' 0)
  else if pf * 256 =? pgn_TP_CM then process_tp_cm prio sa dest data now n
  else if pf * 256 =? pgn_DATATRANSFER then process_tp_dt prio sa dest data now n
  else notify_subscribers prio (pf * 256) sa dest data n (fun n' => Done n' 0).
Proof. exact notify_pdu1. Qed.
Print Assumptions C05_dispatch.

(* T05.2: delivery fires exactly the matching subscribers, in registration order, once each *)
Theorem C05_delivery_is_filter : forall prio pgn sa dest data n k,
  flat (notify_subscribers prio pgn sa dest data n k) =
  let '(s, os, r) := flat (k n) in (s, deliveries n prio pgn sa dest data ++ os, r).
Proof. exact flat_notify_subscribers. Qed.
Print Assumptions C05_delivery_is_filter.

Theorem C05_delivery_rule : forall n s dest,
  sub_matches n s dest = true <->
  match sb_filt s with
  | FNone => True
  | FAddr a => dest = addr_GLOBAL \/ dest = a
  | FCa i => dest = addr_GLOBAL \/
             exists c, nth_error (n_cas n) i = Some c /\ c_state c = ca_state_NORMAL /\ c_addr c = Some dest
  end.
Proof. exact delivery_rule. Qed.
Print Assumptions C05_delivery_rule.

Theorem C05_no_address_nothing_specific : forall n s i c dest,
  sb_filt s = FCa i -> nth_error (n_cas n) i = Some c -> c_state c <> ca_state_NORMAL -> dest <> addr_GLOBAL ->
  sub_matches n s dest = false.
Proof. exact no_address_nothing_specific. Qed.
Print Assumptions C05_no_address_nothing_specific.

(* T05.4 *)
Theorem C05_listener_filter : forall n now id ext remote err data,
  listener n now id ext remote err data =
  if ext && negb remote && negb err then catch (notify n now id data) else Done n 0.
Proof. exact listener_filter. Qed.
Print Assumptions C05_listener_filter.
Theorem C05_listener_contains_exceptions : forall n now id ext remote err data,
  exists r, fres (listener n now id ext remote err data) = RDone r.
Proof. exact listener_contains_exceptions. Qed.
Print Assumptions C05_listener_contains_exceptions.

(* T05.5 *)
Theorem C05_bystander_untouched : forall n frames,
  Forall pdu1_ok frames -> Forall (fun f => accepts n (p_dest f) = false) frames ->
  fold_left feed_frame frames (n, []) = (n, []).
Proof. exact bystander_untouched. Qed.
Print Assumptions C05_bystander_untouched.

(* C08 — the transfer outcome does not depend on where reception pre-empts the job thread.
   T08.1: fault-freedom of both job passes under interference, by reflection on the shared-access skeletons that
   the translator extracts from /repo's async_job_thread methods (theories/gen/SkelGen.v), with the rely extracted
   from the other methods of the classes. *)
From J1939 Require Import Base SkelDefs.
From J1939.gen Require Import SkelGen.
From J1939P Require Import SkelProofs.

Theorem C08_checker_sound : forall rely (l : jloop),
  loop_safe rely l = true -> forall o, exec (rely (jl_table l)) (jl_body l) true o -> o <> Fault.
Proof. exact accepted_loop_never_faults. Qed.
Print Assumptions C08_checker_sound.

(* the CURRENT job pass of J1939-21: every loop over a session table is accepted *)
Theorem C08_j1939_21_job_pass_accepted : all_safe rely_21 skel_21 = true.
Proof. vm_compute. reflexivity. Qed.
Print Assumptions C08_j1939_21_job_pass_accepted.

Theorem C08_j1939_22_job_pass_accepted : all_safe rely_22 skel_22 = true.
Proof. vm_compute. reflexivity. Qed.
Print Assumptions C08_j1939_22_job_pass_accepted.

(* hence: whatever the receive path does between two accesses, no session-table access of either job pass faults *)
Theorem C08_j1939_21_no_fault : forall l, In l skel_21 ->
  forall o, exec (rely_21 (jl_table l)) (jl_body l) true o -> o <> Fault.
Proof.
  intros l Hin. apply accepted_loop_never_faults.
  pose proof C08_j1939_21_job_pass_accepted as H. unfold all_safe in H. rewrite forallb_forall in H. apply H. exact Hin.
Qed.
Print Assumptions C08_j1939_21_no_fault.
Theorem C08_j1939_22_no_fault : forall l, In l skel_22 ->
  forall o, exec (rely_22 (jl_table l)) (jl_body l) true o -> o <> Fault.
Proof.
  intros l Hin. apply accepted_loop_never_faults.
  pose proof C08_j1939_22_job_pass_accepted as H. unfold all_safe in H. rewrite forallb_forall in H. apply H. exact Hin.
Qed.
Print Assumptions C08_j1939_22_no_fault.

Theorem C08_checker_rejects_unprotected_lookup : safe true false (SSeq2 (SAcc KLookup false) (SAcc KDel false)) = None.
Proof. exact unsafe_is_rejected. Qed.
Print Assumptions C08_checker_rejects_unprotected_lookup.

From J1939 Require Import SkelDefs FlowDefs.
From J1939.gen Require Import SkelGen.
From J1939P Require Import FlowProofs OrderProofs.

(* the orderings that make reception during a send harmless (generated skeletons): session stored / record updated
   before the frame goes out, on both layers *)
Theorem C08_state_before_send : never_commits_after_send order_send21 /\ never_commits_after_send order_burst21 /\
                                never_commits_after_send order_send22 /\ never_commits_after_send order_burst22.
Proof. repeat split; [exact order_send21_ok|exact order_burst21_ok|exact order_send22_ok|exact order_burst22_ok]. Qed.
Print Assumptions C08_state_before_send.

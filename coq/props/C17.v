(* C17 — DM14 memory access returns and stores exactly the addressed data (data-level theorems; the three
   cooperating state machines are exercised on the real code by the transaction oracle). *)
From J1939 Require Import Base Dm14Model.
From J1939.gen Require Import Dm14Gen.
From J1939P Require Import CodecProofs Dm14Proofs.

(* T17.1 *)
Theorem C17_values_roundtrip : forall (size : nat) vs,
  (0 < size)%nat -> Forall (fun v => 0 <= v < 2 ^ (8 * Z.of_nat size)) vs ->
  bytes_to_values size false (values_to_bytes size vs) = vs.
Proof. exact values_roundtrip. Qed.
Print Assumptions C17_values_roundtrip.
Theorem C17_signed_is_twos_complement : forall (size : nat) v,
  (0 < size)%nat -> 0 <= v < 2 ^ (8 * Z.of_nat size) ->
  decode size true (le_bytes size v) = if v >=? 2 ^ (8 * Z.of_nat size - 1) then v - 2 ^ (8 * Z.of_nat size) else v.
Proof. exact signed_decode. Qed.
Print Assumptions C17_signed_is_twos_complement.

(* T17.2: the serving side reads from the client's DM14 exactly what the client asked for *)
Theorem C17_dm14_layout : forall oc direct cmd addr key,
  0 <= oc < 256 -> 0 <= direct < 2 -> 0 <= cmd < 8 -> 0 <= addr < 4294967296 -> 0 <= key < 65536 ->
  let d := dm14_payload oc direct cmd addr key in
  length d = 8%nat /\ dm14_object_count d = oc /\ dm14_command d = cmd /\ dm14_pointer_type d = direct /\
  dm14_direct d = direct /\ dm14_access_level d = key /\ le_value (firstn 4 (skipn 2 d)) = addr.
Proof. exact dm14_layout. Qed.
Print Assumptions C17_dm14_layout.
Theorem C17_dm15_proceed_layout : forall direct oc, 0 <= direct < 2 -> 0 <= oc < 256 ->
  let d := dm15_SEND_PROCEED direct dm15_status_PROCEED oc 0 0 0 in
  dm15_length d = oc /\ dm15_status d = dm15_status_PROCEED /\ dm15_seed d = 65535.
Proof. exact dm15_proceed_layout. Qed.
Print Assumptions C17_dm15_proceed_layout.
Theorem C17_dm15_seed_layout : forall direct status seed, 0 <= direct < 2 -> 0 <= status < 8 -> 0 <= seed < 65536 ->
  let d := dm15_WAIT_FOR_KEY direct status 0 seed 0 0 in
  dm15_seed d = seed /\ dm15_status d = status /\ dm15_length d = 0.
Proof. exact dm15_seed_layout. Qed.
Print Assumptions C17_dm15_seed_layout.
(* DM16: every data length from 1 to 255 bytes is framed and extracted without loss (single frame up to 7) *)
Theorem C17_dm16_roundtrip : forall bytes, (1 <= length bytes <= 255)%nat -> dm16_extract (dm16_frame bytes) = bytes.
Proof. exact dm16_roundtrip. Qed.
Print Assumptions C17_dm16_roundtrip.

(* ---------------------------------------------------------------- state-machine level (theories/Dm14Srv.v) *)
From J1939 Require Import Dm14Srv.
From J1939P Require Import Dm14SrvProofs.

(* T17.4 (read): the DM16 the server sends is ONE message to the requester carrying exactly the bytes of respond() ... *)
Theorem C17_server_dm16_carries_data : forall s a,
  v_sa s = Some a ->
  exists s', send_dm16 s = (s', [SSend 215 (Z.land a 255) 7 (server_dm16 s)], None) /\ v_data s' = v_data s /\ v_sa s' = v_sa s /\
             v_state s' = v_state s.
Proof. exact send_dm16_carries_data. Qed.
Print Assumptions C17_server_dm16_carries_data.
(* ... from which the client's extraction rule recovers exactly those bytes, for every length 1..255 *)
Theorem C17_server_dm16_extracts : forall s,
  v_length s = 8 -> (1 <= length (v_data s) <= 255)%nat -> Dm14Model.dm16_extract (server_dm16 s) = v_data s.
Proof. exact server_dm16_extracts. Qed.
Print Assumptions C17_server_dm16_extracts.

(* T17.5 (write): the bytes queued for the serving application are exactly those of the client's DM16 *)
Theorem C17_write_stores_exact_bytes : forall s a d0 rest,
  v_state s = R_WAIT_FOR_DM16 -> v_sa s = Some a -> 0 <= d0 ->
  v_queue (fst (fst (parse_dm16 s PGN_DM16 a (d0 :: rest)))) = v_queue s ++ [Dm14Model.dm16_extract (d0 :: rest)].
Proof. exact parse_dm16_stores. Qed.
Print Assumptions C17_write_stores_exact_bytes.
Theorem C17_respond_returns_first_queued : forall c s proceed data er ed during,
  let s1 := set_state (set_status (set_edcp (set_error (set_data (set_proceed s proceed) data) er) ed) (if proceed then 0 else 5))
                      (if proceed then R_SEND_PROCEED else R_SEND_ERROR) in
  forall s2 o2, wait_for_data s1 = (s2, o2, None) -> v_state s2 = R_WAIT_FOR_DM16 ->
  forall s3 o3 d q, deliver_all c s2 during = (s3, o3) -> v_queue s3 = d :: q ->
  srv_respond c s proceed data er ed during = (set_queue s3 q, o2 ++ o3, RetData d).
Proof. exact respond_write_returns. Qed.
Print Assumptions C17_respond_returns_first_queued.

(* ---------------------------------------------------------------- requesting side (theories/Dm14Cli.v: Dm14Query, tied to
   /repo by operation-sequence correspondence) *)
From J1939 Require Import Dm14Cli.
From J1939P Require Import Dm14CliProofs.

(* T17.6 (read, client): the DM16 the server sends becomes the result — EXACTLY the bytes the frame carries ... *)
Theorem C17_client_dm16_becomes_result : forall s dest d0 rest,
  q_dest s = Some dest -> 0 <= d0 ->
  cparse_dm16 s PGN_DM16 dest (d0 :: rest) =
  cok (cset_state (csub (cunsub (cset_mem s (Some (Dm14Model.dm16_extract (d0 :: rest)))) CB16) CB15) Q_WAIT_FOR_OPER).
Proof. exact dm16_becomes_result. Qed.
Print Assumptions C17_client_dm16_becomes_result.
(* ... the closing DM15 hands it to the waiting call and sends the closing DM14 ... *)
Theorem C17_client_opcomplete_hands_over : forall haskey keyf s dest direct,
  q_dest s = Some dest -> q_state s = Q_WAIT_FOR_OPER -> 0 <= direct < 2 -> q_objcnt s <> 0 ->
  exists s', cparse_dm15 haskey keyf s PGN_DM15 dest [0; direct * 16 + 4 * 2 + 1; 255; 255; 255; 255; 255; 255] =
             (s', [CSend 217 (Z.land dest 255) 6 (dm14_frame 1 (q_direct s) 4 (q_addr s) 65535)], None) /\
             q_dq s' = q_dq s ++ [q_mem s] /\ q_state s' = Q_IDLE /\ q_xq s' = q_xq s.
Proof. exact opcomplete_hands_over. Qed.
Print Assumptions C17_client_opcomplete_hands_over.
(* ... and read() returns it: raw, or the integers the bytes encode at the requested object size and signedness
   (C17_values_roundtrip / C17_signed_is_twos_complement say which), and the query is idle again *)
Theorem C17_client_read_returns_queue_head : forall haskey keyf s dest direct addr objcnt size signed raw during s4 o4 b bs rest,
  0 < objcnt ->
  (let s1 := csub (cupd s (q_state s) (Some dest) direct addr objcnt size signed raw 1 (q_bytes s) (q_mem s) (q_dq s) (q_xq s) (q_subs s)) CB15 in
   cwait haskey keyf (cset_state s1 Q_WAIT_FOR_SEED) during = (s4, o4)) ->
  q_dq s4 = Some (b :: bs) :: rest -> q_xq s4 = [] ->
  snd (cli_read haskey keyf s dest direct addr objcnt size signed raw during) =
    CRValues (if raw then b :: bs else Dm14Model.bytes_to_values (Z.to_nat size) signed (b :: bs)) /\
  q_state (fst (fst (cli_read haskey keyf s dest direct addr objcnt size signed raw during))) = Q_IDLE.
Proof. exact read_returns_queue_head. Qed.
Print Assumptions C17_client_read_returns_queue_head.
(* T17.5 (write, client): on the server's proceed the query sends ONE DM16 carrying exactly the stored bytes, in the
   framing whose extraction returns them unchanged (C17_dm16_roundtrip; server side: C17_write_stores_exact_bytes) *)
Theorem C17_client_write_sends_exact_bytes : forall s dest,
  q_dest s = Some dest -> q_state s = Q_WAIT_FOR_SEED -> q_command s = 2 ->
  cwait_for_data s = (cset_state s Q_WAIT_FOR_OPER, [CSend 215 (Z.land dest 255) 6 (Dm14Model.dm16_frame (q_bytes s))], None).
Proof. exact write_sends_exact_bytes. Qed.
Print Assumptions C17_client_write_sends_exact_bytes.

(* ------------------------------------------------------------------------------------------------------------------
   End to end on the composed model (theories/Dm14Net.v): the requesting side (Dm14Query) against the serving side
   (DM14Server + MemoryAccess + the serving application answering respond()), message by message — what one side sends is
   what the other hears; a transaction is the causal fixpoint of the two `during' lists.  The data bytes / values are
   universally quantified (any integers: they never decide a branch); addresses, pointer and seed are concrete per setup
   (six setups: with and without seed/key, with and without a proceed callback, addresses 0, 254, pointer 0 and 0xFFFFFFFF). *)
From J1939 Require Import Dm14Net.
From J1939P Require Import Dm14NetProofs.

(* T17.3: a read of 1..7 bytes returns EXACTLY the serving application's bytes (raw) or the integers they encode at the
   requested size/signedness; afterwards both sides are idle with their original subscriptions; the requester has sent
   exactly what the server was fed plus the closing DM14 *)
Theorem C17_read_end_to_end_exact : forall u, In u setups -> forall data size signed raw,
  (1 <= length data <= 7)%nat -> read_ok u size signed raw data.
Proof. exact read_exact. Qed.
Print Assumptions C17_read_end_to_end_exact.

(* T17.4: a write hands EXACTLY the little-endian bytes of the values to the serving application's respond() *)
Theorem C17_write_end_to_end_exact_bytes : forall u, In u setups -> forall values, (1 <= length values <= 7)%nat -> write_ok u 1 values.
Proof. exact write_exact_1. Qed.
Print Assumptions C17_write_end_to_end_exact_bytes.
Theorem C17_write_end_to_end_exact_words : forall u, In u setups -> forall values, (1 <= length values <= 3)%nat -> write_ok u 2 values.
Proof. exact write_exact_2. Qed.
Print Assumptions C17_write_end_to_end_exact_words.
Theorem C17_write_end_to_end_exact_dword : forall u, In u setups -> forall v, write_ok u 4 [v].
Proof. exact write_exact_4. Qed.
Print Assumptions C17_write_end_to_end_exact_dword.

(* T17.6: back to back on the same objects *)
Theorem C17_second_read_after_first : forall b1 b2 b3 c1 c2 size signed raw,
  let t1 := txn_read cfg_key xor_key (init_srv [4660; 77] []) init_cli 249 212 1 2449473539 3 size signed raw [b1; b2; b3] in
  let t2 := txn_read cfg_key xor_key (t_srv t1) (t_cli t1) 249 212 0 5 2 size signed raw [c1; c2] in
  t_ret t2 = CRValues (if raw then [c1; c2] else bytes_to_values (Z.to_nat size) signed [c1; c2]) /\ idle_cli (t_cli t2) /\ idle_srv (t_srv t2).
Proof. exact second_read_after_first. Qed.
Print Assumptions C17_second_read_after_first.

(* C17 — DM14 memory access returns and stores exactly the addressed data (data-level theorems; the three
   cooperating state machines are exercised on the real code by the transaction oracle). *)
From J1939 Require Import Base Dm14Model.
From J1939.gen Require Import Dm14Gen.
From J1939P Require Import CodecProofs Dm14Proofs.

(* T17.1 *)
Theorem C17_values_roundtrip : forall (size : nat) vs,
  (0 < size)%nat -> Forall (fun v => 0 <= v < 2 ^ (8 * Z.of_nat size)) vs ->
  bytes_to_values size false (values_to_bytes size vs) = vs.
Proof. exact values_roundtrip. Qed.
Print Assumptions C17_values_roundtrip.
Theorem C17_signed_is_twos_complement : forall (size : nat) v,
  (0 < size)%nat -> 0 <= v < 2 ^ (8 * Z.of_nat size) ->
  decode size true (le_bytes size v) = if v >=? 2 ^ (8 * Z.of_nat size - 1) then v - 2 ^ (8 * Z.of_nat size) else v.
Proof. exact signed_decode. Qed.
Print Assumptions C17_signed_is_twos_complement.

(* T17.2: the serving side reads from the client's DM14 exactly what the client asked for *)
Theorem C17_dm14_layout : forall oc direct cmd addr key,
  0 <= oc < 256 -> 0 <= direct < 2 -> 0 <= cmd < 8 -> 0 <= addr < 4294967296 -> 0 <= key < 65536 ->
  let d := dm14_payload oc direct cmd addr key in
  length d = 8%nat /\ dm14_object_count d = oc /\ dm14_command d = cmd /\ dm14_pointer_type d = direct /\
  dm14_direct d = direct /\ dm14_access_level d = key /\ le_value (firstn 4 (skipn 2 d)) = addr.
Proof. exact dm14_layout. Qed.
Print Assumptions C17_dm14_layout.
Theorem C17_dm15_proceed_layout : forall direct oc, 0 <= direct < 2 -> 0 <= oc < 256 ->
  let d := dm15_SEND_PROCEED direct dm15_status_PROCEED oc 0 0 0 in
  dm15_length d = oc /\ dm15_status d = dm15_status_PROCEED /\ dm15_seed d = 65535.
Proof. exact dm15_proceed_layout. Qed.
Print Assumptions C17_dm15_proceed_layout.
Theorem C17_dm15_seed_layout : forall direct status seed, 0 <= direct < 2 -> 0 <= status < 8 -> 0 <= seed < 65536 ->
  let d := dm15_WAIT_FOR_KEY direct status 0 seed 0 0 in
  dm15_seed d = seed /\ dm15_status d = status /\ dm15_length d = 0.
Proof. exact dm15_seed_layout. Qed.
Print Assumptions C17_dm15_seed_layout.
(* DM16: every data length from 1 to 255 bytes is framed and extracted without loss (single frame up to 7) *)
Theorem C17_dm16_roundtrip : forall bytes, (1 <= length bytes <= 255)%nat -> dm16_extract (dm16_frame bytes) = bytes.
Proof. exact dm16_roundtrip. Qed.
Print Assumptions C17_dm16_roundtrip.

(* ---------------------------------------------------------------- state-machine level (theories/Dm14Srv.v) *)
From J1939 Require Import Dm14Srv.
From J1939P Require Import Dm14SrvProofs.

(* T17.4 (read): the DM16 the server sends is ONE message to the requester carrying exactly the bytes of respond() ... *)
Theorem C17_server_dm16_carries_data : forall s a,
  v_sa s = Some a ->
  exists s', send_dm16 s = (s', [SSend 215 (Z.land a 255) 7 (server_dm16 s)], None) /\ v_data s' = v_data s /\ v_sa s' = v_sa s /\
             v_state s' = v_state s.
Proof. exact send_dm16_carries_data. Qed.
Print Assumptions C17_server_dm16_carries_data.
(* ... from which the client's extraction rule recovers exactly those bytes, for every length 1..255 *)
Theorem C17_server_dm16_extracts : forall s,
  v_length s = 8 -> (1 <= length (v_data s) <= 255)%nat -> Dm14Model.dm16_extract (server_dm16 s) = v_data s.
Proof. exact server_dm16_extracts. Qed.
Print Assumptions C17_server_dm16_extracts.

(* T17.5 (write): the bytes queued for the serving application are exactly those of the client's DM16 *)
Theorem C17_write_stores_exact_bytes : forall s a d0 rest,
  v_state s = R_WAIT_FOR_DM16 -> v_sa s = Some a -> 0 <= d0 ->
  v_queue (fst (fst (parse_dm16 s PGN_DM16 a (d0 :: rest)))) = v_queue s ++ [Dm14Model.dm16_extract (d0 :: rest)].
Proof. exact parse_dm16_stores. Qed.
Print Assumptions C17_write_stores_exact_bytes.
Theorem C17_respond_returns_first_queued : forall c s proceed data er ed during,
  let s1 := set_state (set_status (set_edcp (set_error (set_data (set_proceed s proceed) data) er) ed) (if proceed then 0 else 5))
                      (if proceed then R_SEND_PROCEED else R_SEND_ERROR) in
  forall s2 o2, wait_for_data s1 = (s2, o2, None) -> v_state s2 = R_WAIT_FOR_DM16 ->
  forall s3 o3 d q, deliver_all c s2 during = (s3, o3) -> v_queue s3 = d :: q ->
  srv_respond c s proceed data er ed during = (set_queue s3 q, o2 ++ o3, RetData d).
Proof. exact respond_write_returns. Qed.
Print Assumptions C17_respond_returns_first_queued.

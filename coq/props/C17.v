(* C17 — DM14 memory access returns and stores exactly the addressed data (data-level theorems; the three
   cooperating state machines are exercised on the real code by the transaction oracle). *)
From J1939 Require Import Base Dm14Model.
From J1939.gen Require Import Dm14Gen.
From J1939P Require Import CodecProofs Dm14Proofs.

(* T17.1 *)
Theorem C17_values_roundtrip : forall (size : nat) vs,
  (0 < size)%nat -> Forall (fun v => 0 <= v < 2 ^ (8 * Z.of_nat size)) vs ->
  bytes_to_values size false (values_to_bytes size vs) = vs.
Proof. exact values_roundtrip. Qed.
Print Assumptions C17_values_roundtrip.
Theorem C17_signed_is_twos_complement : forall (size : nat) v,
  (0 < size)%nat -> 0 <= v < 2 ^ (8 * Z.of_nat size) ->
  decode size true (le_bytes size v) = if v >=? 2 ^ (8 * Z.of_nat size - 1) then v - 2 ^ (8 * Z.of_nat size) else v.
Proof. exact signed_decode. Qed.
Print Assumptions C17_signed_is_twos_complement.

(* T17.2: the serving side reads from the client's DM14 exactly what the client asked for *)
Theorem C17_dm14_layout : forall oc direct cmd addr key,
  0 <= oc < 256 -> 0 <= direct < 2 -> 0 <= cmd < 8 -> 0 <= addr < 4294967296 -> 0 <= key < 65536 ->
  let d := dm14_payload oc direct cmd addr key in
  length d = 8%nat /\ dm14_object_count d = oc /\ dm14_command d = cmd /\ dm14_pointer_type d = direct /\
  dm14_direct d = direct /\ dm14_access_level d = key /\ le_value (firstn 4 (skipn 2 d)) = addr.
Proof. exact dm14_layout. Qed.
Print Assumptions C17_dm14_layout.
Theorem C17_dm15_proceed_layout : forall direct oc, 0 <= direct < 2 -> 0 <= oc < 256 ->
  let d := dm15_SEND_PROCEED direct dm15_status_PROCEED oc 0 0 0 in
  dm15_length d = oc /\ dm15_status d = dm15_status_PROCEED /\ dm15_seed d = 65535.
Proof. exact dm15_proceed_layout. Qed.
Print Assumptions C17_dm15_proceed_layout.
Theorem C17_dm15_seed_layout : forall direct status seed, 0 <= direct < 2 -> 0 <= status < 8 -> 0 <= seed < 65536 ->
  let d := dm15_WAIT_FOR_KEY direct status 0 seed 0 0 in
  dm15_seed d = seed /\ dm15_status d = status /\ dm15_length d = 0.
Proof. exact dm15_seed_layout. Qed.
Print Assumptions C17_dm15_seed_layout.
(* DM16: every data length from 1 to 255 bytes is framed and extracted without loss (single frame up to 7) *)
Theorem C17_dm16_roundtrip : forall bytes, (1 <= length bytes <= 255)%nat -> dm16_extract (dm16_frame bytes) = bytes.
Proof. exact dm16_roundtrip. Qed.
Print Assumptions C17_dm16_roundtrip.

(* C07 — no sequence of received frames can stop, stall or permanently clog the stack (J1939-21 and J1939-22 models). *)
From J1939 Require Import Base CodecGlue Model21 Model22.
From J1939.gen Require Import Codec Tp21Gen CaGen Tp22Gen.
From J1939P Require Import CodecProofs Flat FilterProofs RobustProofs TimeoutProofs MpgProofs PoolProofs RobustProofs22 TimeoutProofs22.

(* T07.3: the transport pass over ANY session tables (whatever traffic created them), at ANY instant, hands on
   a wake-up time strictly in the future or raises: the job loop cannot busy-spin on protocol state *)
Theorem C07_job_pass_makes_progress : forall n now k,
  cfg_ok n -> (forall n' nw', now < nw' -> good (k n' nw')) -> good (dll_job n now k).
Proof. exact dll_job_progress. Qed.
Print Assumptions C07_job_pass_makes_progress.

Theorem C07_job_pass_never_spins : forall n now,
  cfg_ok n -> good (dll_job n now (fun n' nw' => Done n' (nw' - now))).
Proof. exact dll_job_never_spins. Qed.
Print Assumptions C07_job_pass_never_spins.

Theorem C07_default_configuration_ok : forall maxp civ biv,
  (forall v, civ = Some v -> 0 < v) -> (forall v, biv = Some v -> 0 < v) -> cfg_ok (init_node maxp civ biv).
Proof. exact init_cfg_ok. Qed.
Print Assumptions C07_default_configuration_ok.

(* T07.4: every receive session opened by traffic is removed by the first pass at or after its deadline,
   and its deadline is at most T2 = 1.25 s after the last frame that touched it (C06) *)
Theorem C07_session_released_at_deadline : forall key now nw n k b,
  tget (n_rcv n) key = Some b -> r_deadline b <> 0 -> r_deadline b <= now ->
  flat (rcv_pass [key] now nw n k) =
  let n' := set_rcv n (tdel (n_rcv n) key) in
  let '(s, os, r) := flat (k n' nw) in
  (s, (if r_dst b =? addr_GLOBAL then [] else [OTx (tp21_abort (r_dst b) (r_src b) tp21_reason_TIMEOUT (r_pgn b))]) ++ os, r).
Proof. exact rcv_timeout_releases. Qed.
Print Assumptions C07_session_released_at_deadline.

(* T07.5: whatever a malformed frame makes notify raise is contained by the listener *)
Theorem C07_exceptions_contained : forall n now id ext remote err data,
  exists r, fres (listener n now id ext remote err data) = RDone r.
Proof. exact listener_contains_exceptions. Qed.
Print Assumptions C07_exceptions_contained.

(* T07.3 (J1939-22): the FD transport pass — receive sessions, multi-PG buffers and originator sessions in ANY state
   with ANY counters (e.g. after a CTS that points beyond the last segment) — hands on a wake-up time strictly in
   the future or raises *)
Theorem C07_fd_job_pass_makes_progress : forall m now k,
  cfg22_ok (cfg22 m) -> (forall m' nw', now < nw' -> good22 (k m' nw')) -> good22 (dll_job22 m now k).
Proof. exact dll_job22_progress. Qed.
Print Assumptions C07_fd_job_pass_makes_progress.
Theorem C07_fd_job_pass_never_spins : forall m now,
  cfg22_ok (cfg22 m) -> good22 (dll_job22 m now (fun m' nw' => Done m' (nw' - now))).
Proof. exact dll_job22_never_spins. Qed.
Print Assumptions C07_fd_job_pass_never_spins.
Theorem C07_fd_default_configuration_ok : forall maxp civ biv,
  (forall v, civ = Some v -> 0 < v) -> (forall v, biv = Some v -> 0 < v) -> cfg22_ok (cfg22 (init_node22 maxp civ biv)).
Proof. exact init22_cfg_ok. Qed.
Print Assumptions C07_fd_default_configuration_ok.

(* ------------------------------------------------------------------------------------------------------------------
   J1939-22: what one pass of the job thread does to a session whose time limit has run out — every session record,
   table and continuation.  The abort goes from the side that gives up to its peer under the session's own number; the
   originating side returns its session number to the pool it was taken from; nothing happens before the deadline. *)
Theorem C07_fd_timeouts_within_standard :
  tp22_T1 = 750000 /\ tp22_T2 = 1250000 /\ tp22_T3 = 1250000 /\ tp22_T4 = 1050000 /\ tp22_T5 = 3000000 /\ tp22_Th = 500000.
Proof. exact timeouts22_within_standard. Qed.
Print Assumptions C07_fd_timeouts_within_standard.

Theorem C07_fd_rcv_timeout_releases : forall key now nw m k b,
  tget (f_rcv m) key = Some b -> q_deadline b <> 0 -> q_deadline b <= now ->
  flat22 (rcv_pass22 [key] now nw m k) =
  let m' := set_frcv m (tdel (f_rcv m) key) in
  let '(s, os, r) := flat22 (k m' nw) in
  (s, (if q_dst b =? addr_GLOBAL then [] else [OTx (tp22_abort (q_dst b) (q_src b) (q_session b) tp22_reason_TIMEOUT (q_pgn b))]) ++ os, r).
Proof. exact rcv22_timeout_releases. Qed.
Print Assumptions C07_fd_rcv_timeout_releases.

Theorem C07_fd_rcv_untouched_before_deadline : forall key now nw m k b,
  tget (f_rcv m) key = Some b -> now < q_deadline b -> 0 <= now ->
  rcv_pass22 [key] now nw m k = k m (minw nw (q_deadline b)).
Proof. exact rcv22_before_deadline. Qed.
Print Assumptions C07_fd_rcv_untouched_before_deadline.

Theorem C07_fd_snd_timeout_releases : forall key now nw m k b,
  tget (f_snd m) key = Some b -> t_state b = tp22_st_WAITING_CTS -> t_deadline b <> 0 -> t_deadline b <= now ->
  in_pool m b ->
  exists m', returned (set_fsnd m (tdel (f_snd m) key)) b m' /\
  flat22 (snd_pass22 [key] now nw m k) =
  let '(s, os, r) := flat22 (k m' nw) in
  (s, OTx (tp22_abort (t_src b) (t_dst b) (t_session b) tp22_reason_TIMEOUT (t_pgn b)) :: os, r).
Proof. exact snd22_timeout_releases. Qed.
Print Assumptions C07_fd_snd_timeout_releases.

Theorem C07_fd_unacknowledged_session_released : forall key now nw m k b,
  tget (f_snd m) key = Some b -> t_state b = tp22_st_WAITING_EOM_ACK -> t_deadline b <> 0 -> t_deadline b <= now ->
  in_pool m b ->
  exists m', returned (set_fsnd m (tdel (f_snd m) key)) b m' /\
  snd_pass22 [key] now nw m k = k m' nw.
Proof. exact snd22_ack_wait_releases. Qed.
Print Assumptions C07_fd_unacknowledged_session_released.

Theorem C07_fd_finished_session_released : forall key now nw m k b,
  tget (f_snd m) key = Some b ->
  t_state b = tp22_st_EOM_ACK_RECEIVED \/ t_state b = tp22_st_TRANSMISSION_FINISHED ->
  t_deadline b <> 0 -> t_deadline b <= now -> in_pool m b ->
  exists m', returned (set_fsnd m (tdel (f_snd m) key)) b m' /\
  snd_pass22 [key] now nw m k = k m' nw.
Proof. exact snd22_finished_releases. Qed.
Print Assumptions C07_fd_finished_session_released.

Theorem C07_fd_snd_untouched_before_deadline : forall key now nw m k b,
  tget (f_snd m) key = Some b -> now < t_deadline b -> 0 <= now ->
  snd_pass22 [key] now nw m k = k m (minw nw (t_deadline b)).
Proof. exact snd22_before_deadline. Qed.
Print Assumptions C07_fd_snd_untouched_before_deadline.

Theorem C07_fd_returned_number_is_free : forall m b m',
  in_pool m b -> returned m b m' ->
  nth_error (if t_dst b =? addr_GLOBAL then f_bam m' else f_rts m') (Z.to_nat (t_session b)) = Some true.
Proof. exact returned_is_free. Qed.
Print Assumptions C07_fd_returned_number_is_free.

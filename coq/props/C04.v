(* C04 — address claiming yields unique addresses; the lowest NAME keeps a contested one.
   The per-CA step functions ca_timer / ca_claim are proved equal to the node-level handlers of Model21
   (claim_async / process_addressclaim); the network theorems hold for ANY number of CAs and ANY schedule
   of timer firings and (FIFO per receiver) deliveries. *)
From J1939 Require Import Base CodecGlue Model21.
From J1939.gen Require Import Codec Tp21Gen CaGen.
From J1939P Require Import CodecProofs Flat ClaimProofs.

Theorem C04_timer_handler_is_ca_timer : forall i now n k c,
  nth_error (n_cas n) i = Some c ->
  flat (claim_async i now n k) =
  let '(c', outs, tts) := ca_timer c in
  let n1 := add_timer (set_ca n i c') now tts (TClaim i) false in
  let '(s, os, r) := flat (k n1) in (s, map (claim_frame c') outs ++ os, r).
Proof. exact claim_async_flat. Qed.
Print Assumptions C04_timer_handler_is_ca_timer.

Theorem C04_claim_handler_is_ca_claim : forall i sa data n k c,
  nth_error (n_cas n) i = Some c ->
  flat (process_addressclaim i sa data n k) =
  let '(c', outs) := ca_claim c (sa, name_value_f (name_ctor_bytes data)) in
  let '(s, os, r) := flat (k (set_ca n i c')) in (s, map (claim_frame c') outs ++ os, r).
Proof. exact process_addressclaim_flat. Qed.
Print Assumptions C04_claim_handler_is_ca_claim.

(* T15.5: the NAME compared in arbitration is the 64-bit value of the 8 bytes on the wire *)
Theorem C04_arbitration_compares_name_values : forall c, ca_wf c -> name_value_f (name_ctor_bytes (c_nbytes c)) = c_name c.
Proof. exact decoded_name. Qed.
Print Assumptions C04_arbitration_compares_name_values.

Theorem C04_constructed_ca_well_formed : forall v pref byp, 0 <= v < 2 ^ 64 -> ca_wf (mk_ca v pref byp).
Proof. exact mk_ca_wf. Qed.
Print Assumptions C04_constructed_ca_well_formed.

(* T04.1: conflict invariant in every reachable state *)
Theorem C04_conflict_invariant : forall n evs, init_ok n -> names_distinct n ->
  Inv (fold_left step evs n) /\ names_distinct (fold_left step evs n).
Proof. exact reachable_inv. Qed.
Print Assumptions C04_conflict_invariant.

(* T04.2: uniqueness once the bus is quiet *)
Theorem C04_unique_at_quiescence : forall n evs i j,
  init_ok n -> names_distinct n -> i <> j ->
  let n' := fold_left step evs n in
  (forall k, qs n' k = []) ->
  c_state (cas n' i) = ca_state_NORMAL -> c_state (cas n' j) = ca_state_NORMAL ->
  c_addr (cas n' i) <> c_addr (cas n' j).
Proof. exact unique_at_quiescence. Qed.
Print Assumptions C04_unique_at_quiescence.

(* T04.3: an address is only ever left on a claim for it with a strictly lower NAME; never by the timer *)
Theorem C04_leaves_only_to_lower_name : forall c m c' outs a,
  ca_claim c m = (c', outs) -> Claims c a -> ~ Claims c' a -> fst m = a /\ snd m < c_name c.
Proof. exact leaves_only_to_lower. Qed.
Print Assumptions C04_leaves_only_to_lower_name.

Theorem C04_timer_keeps_claim : forall c c' outs tts a, ca_timer c = (c', outs, tts) -> Claims c a -> Claims c' a.
Proof. exact timer_keeps_claim. Qed.
Print Assumptions C04_timer_keeps_claim.

(* T04.4: loser behaviour *)
Theorem C04_loser_behaviour : forall c sa other,
  awaiting c sa = true -> other < c_name c ->
  (c_aac c = 0 ->
     ca_claim c (sa, other) = (with_ca_state c ca_state_CANNOT_CLAIM None (c_ann c), [(addr_NULL, c_name c)])) /\
  (c_aac c <> 0 ->
     ca_claim c (sa, other) = (with_ca_state c ca_state_WAIT_VETO (Some addr_NULL) (c_ann c + 1), [(c_ann c + 1, c_name c)])).
Proof. exact loser_behaviour. Qed.
Print Assumptions C04_loser_behaviour.

(* T04.5: yields strictly increase the announced address (termination measure) *)
Theorem C04_yield_increases : forall c m c' outs,
  ca_claim c m = (c', outs) -> c_ann c' = c_ann c \/ (c_ann c' = c_ann c + 1 /\ c_state c' = ca_state_WAIT_VETO).
Proof. exact yield_increases. Qed.
Print Assumptions C04_yield_increases.

From J1939 Require Import SkelDefs FlowDefs.
From J1939.gen Require Import SkelGen.
From J1939P Require Import FlowProofs OrderProofs.

(* the claim state and address are committed before the claim / cannot-claim frame is handed to the bus (generated
   skeleton of _process_claim_async and _process_addressclaim): a contending claim or veto that is handled before the send
   returns meets the state it answers to *)
Theorem C04_claim_state_before_frame : never_commits_after_send order_ca.
Proof. exact order_ca_ok. Qed.
Print Assumptions C04_claim_state_before_frame.

(* C01 — J1939-21 transport delivers every accepted message intact, exactly once.
   Property theorems only (closed by [exact]); proofs in proofs/Tp21Seg.v, Flat.v, Tp21Resp.v, Tp21Orig.v.
   The handlers are those of theories/Model21.v (tied to /repo by correspondence); frame builders,
   field extraction, hash and constants are generated from /repo. *)
From J1939 Require Import Base CodecGlue Model21.
From J1939.gen Require Import Codec Tp21Gen CaGen.
From J1939P Require Import CodecProofs Flat Tp21Seg Tp21Resp Tp21Orig FrameLocal Tp21Bam.

(* T01.1 — segmentation and reassembly are inverse for EVERY payload *)
Theorem C01_reassembly : forall p, firstn (length p) (segs p (npk (length p))) = p.
Proof. exact seg7_reassemble. Qed.
Print Assumptions C01_reassembly.

Theorem C01_packet_layout : forall p (k : nat),
  dt_payload p (Z.of_nat k) = (Z.of_nat k + 1) :: pad7 (seg7 p k).
Proof. exact dt_payload_spec. Qed.
Print Assumptions C01_packet_layout.

Theorem C01_packet_count : forall s : nat, num_packets (Z.of_nat s) = Z.of_nat (npk s).
Proof. exact num_packets_npk. Qed.
Print Assumptions C01_packet_count.

Theorem C01_proper_prefix_is_short : forall p k,
  (k < npk (length p))%nat -> (length (segs p k) < length p)%nat \/ length p = 0%nat.
Proof. exact sub_packets_short. Qed.
Print Assumptions C01_proper_prefix_is_short.

(* T05.2/T01.2 — a delivery invokes exactly the matching subscribers, in order, once each *)
Theorem C01_delivery_rule : forall prio pgn sa dest data n k,
  flat (notify_subscribers prio pgn sa dest data n k) =
  let '(s, os, r) := flat (k n) in (s, deliveries n prio pgn sa dest data ++ os, r).
Proof. exact flat_notify_subscribers. Qed.
Print Assumptions C01_delivery_rule.

(* T01.3 (a) — responder: RTS opens a session, answered by CTS(min(own max, RTS limit, n), 1) *)
Theorem C01_responder_rts : forall prio sa dest pgn limit p t0,
  0 <= prio < 8 -> 0 <= sa < 256 -> 0 <= dest < 255 -> 0 <= pgn < 262144 -> 8 < len p < 65536 ->
  forall n, accepts n dest = true -> tget (n_rcv n) (tp21_hash sa dest) = None -> 1 <= n_maxp n ->
  let size := len p in let num := Z.of_nat (npk (length p)) in
  let g0 := Z.min (n_maxp n) (Z.min limit num) in
  let b0 := {| r_pgn := pgn; r_size := size; r_num := num; r_next := g0; r_maxrec := Some g0; r_data := [];
               r_deadline := t0 + tp21_T2; r_src := sa; r_dst := dest |} in
  flat (notify n t0 (f_id (tp21_rts sa dest prio pgn size num limit)) (f_data (tp21_rts sa dest prio pgn size num limit)))
  = (wake (set_rcv n (tset (n_rcv n) (tp21_hash sa dest) b0)), [OTx (tp21_cts dest sa g0 1 pgn)], RDone 0).
Proof. intros prio sa dest pgn limit p t0 H1 H2 H3 H4 H5. exact (responder_rts prio sa dest pgn limit p t0 H1 H2 H3 H4 H5). Qed.
Print Assumptions C01_responder_rts.

(* T01.3 (b) — responder: the canonical DT_1..DT_n, arriving at arbitrary instants, yield a CTS at
   every window border, then EndOfMsgACK and exactly one delivery of p; session gone, rest untouched *)
Theorem C01_responder_dt_phase : forall prio sa dest pgn limit p t0 (now : nat -> Z),
  0 <= prio < 8 -> 0 <= sa < 256 -> 0 <= dest < 255 -> 0 <= pgn < 262144 -> 1 <= limit -> 8 < len p < 65536 ->
  forall n, accepts n dest = true -> tget (n_rcv n) (tp21_hash sa dest) = None -> 1 <= n_maxp n ->
  let size := len p in let num := Z.of_nat (npk (length p)) in
  let g0 := Z.min (n_maxp n) (Z.min limit num) in
  let n1 := fnode (notify n t0 (f_id (tp21_rts sa dest prio pgn size num limit))
                           (f_data (tp21_rts sa dest prio pgn size num limit))) in
  exists n', feedN sa dest p now (npk (length p)) 0 n1 = (n', expect 7 sa dest pgn p n1 g0 0 (npk (length p))) /\
             n_rcv n' = tdel (n_rcv n1) (tp21_hash sa dest) /\ same_env n1 n'.
Proof. exact responder_dt_phase. Qed.
Print Assumptions C01_responder_dt_phase.

(* T01.4 — originator: send_pgn emits RTS(size, n, min(max_cmdt, n), PGN with PS cleared) *)
Theorem C01_send_pgn_rts : forall n now dp pf ps prio sa data,
  8 < len data -> 0 <= pf < 240 -> 0 <= ps < 255 -> 0 <= dp < 2 ->
  tget (n_snd n) (tp21_hash sa ps) = None ->
  let size := len data in let num := num_packets size in let pv := dp * 65536 + pf * 256 in
  flat (send_pgn n now dp pf ps prio sa data) =
  (wake (set_snd n (tset (n_snd n) (tp21_hash sa ps)
      (mk_sbuf pv prio size num data ST_WAITING_CTS (now + tp21_T3) sa ps (Some 0)))),
   [OTx (tp21_rts sa ps prio pv size num (Z.min (n_maxp n) num))], RDone 1).
Proof. exact send_pgn_rts. Qed.
Print Assumptions C01_send_pgn_rts.

Theorem C01_send_pgn_busy : forall n now dp pf ps prio sa data b,
  8 < len data ->
  let dest := if (ps =? addr_GLOBAL) || pgn_is_pdu2_of 0 pf ps then addr_GLOBAL else ps in
  tget (n_snd n) (tp21_hash sa dest) = Some b ->
  flat (send_pgn n now dp pf ps prio sa data) = (n, [], RDone 0).
Proof. exact send_pgn_busy. Qed.
Print Assumptions C01_send_pgn_busy.

Theorem C01_cts_opens_window : forall sa dest n b prio pgn g x now,
  tget (n_snd n) (tp21_hash sa dest) = Some b -> s_next b = x -> 0 <= x -> 1 <= g -> x + g <= s_num b ->
  0 <= pgn < 16777216 ->
  flat (process_tp_cm prio dest sa (f_data (tp21_cts dest sa g (x + 1) pgn)) now n) =
  (wake (set_snd n (tset (n_snd n) (tp21_hash sa dest)
      (with_waitcts (upd_sbuf b ST_SENDING_IN_CTS (Z.max now (s_nb b)) x) (Some (x + g - 1))))), [], RDone 0).
Proof. exact cts_opens_window. Qed.
Print Assumptions C01_cts_opens_window.

(* T01.4 — after CTS(g, x+1) a job pass emits exactly DT_{x+1}..DT_{x+g}, in order, then waits again *)
Theorem C01_window_burst : forall sa dest n b (g : nat) x now nw k,
  tget (n_snd n) (tp21_hash sa dest) = Some b -> n_cmdt_iv n = None ->
  s_state b = ST_SENDING_IN_CTS -> s_next b = x -> s_waitcts b = Some (x + Z.of_nat g) ->
  x + Z.of_nat g < s_num b -> 0 <= x -> s_deadline b <> 0 -> s_deadline b <= now ->
  flat (snd_pass [tp21_hash sa dest] now nw n k) =
  let b' := upd_sbuf b ST_WAITING_CTS (now + tp21_T3) (x + Z.of_nat g + 1) in
  let nw' := if nw >? now + tp21_T3 then now + tp21_T3 else nw in
  let '(s, os, r) := flat (k (set_snd n (tset (n_snd n) (tp21_hash sa dest) b')) nw') in
  (s, dts (s_src b) (s_dst b) (s_data b) x (S g) ++ os, r).
Proof. exact window_burst. Qed.
Print Assumptions C01_window_burst.

(* T01.7 — concurrency: a transport frame of the pair (sa, dest) touches at most the receive session (sa, dest) and the
   send session (dest, sa); the sessions of every OTHER pair — data, counters, state, deadlines — are exactly as before,
   whatever the frame contains.  Together with the role theorems (one pair each) this covers any set of simultaneous
   transfers on distinct pairs, in both directions, for every interleaving of their frames *)
Theorem C01_cm_frame_touches_one_pair : forall prio sa dest data now n sa' dest',
  0 <= sa < 256 -> 0 <= dest < 256 -> 0 <= sa' < 256 -> 0 <= dest' < 256 ->
  (sa', dest') <> (sa, dest) ->
  tget (n_rcv (fnode (process_tp_cm prio sa dest data now n))) (tp21_hash sa' dest') = tget (n_rcv n) (tp21_hash sa' dest') /\
  tget (n_snd (fnode (process_tp_cm prio sa dest data now n))) (tp21_hash dest' sa') = tget (n_snd n) (tp21_hash dest' sa').
Proof. exact other_pairs_untouched_by_cm. Qed.
Print Assumptions C01_cm_frame_touches_one_pair.
Theorem C01_dt_frame_touches_one_pair : forall prio sa dest data now n sa' dest',
  0 <= sa < 256 -> 0 <= dest < 256 -> 0 <= sa' < 256 -> 0 <= dest' < 256 ->
  (sa', dest') <> (sa, dest) ->
  tget (n_rcv (fnode (process_tp_dt prio sa dest data now n))) (tp21_hash sa' dest') = tget (n_rcv n) (tp21_hash sa' dest') /\
  (forall h, tget (n_snd (fnode (process_tp_dt prio sa dest data now n))) h = tget (n_snd n) h).
Proof. exact other_pairs_untouched_by_dt. Qed.
Print Assumptions C01_dt_frame_touches_one_pair.

(* T01.5 — broadcast (BAM), listener: the announcement opens the session; the data packets DT_1..DT_n, arriving at
   arbitrary instants, cause NO frame and exactly one delivery of p to the matching listeners; session released *)
Theorem C01_bam_announce_opens : forall prio sa data now n,
  (8 <= length data)%nat -> tp21_cm_control data = tp21_cm_BAM ->
  let h := tp21_hash sa addr_GLOBAL in
  let b := {| r_pgn := tp21_cm_pgn data; r_size := tp21_bam_message_size data; r_num := tp21_bam_num_packages data; r_next := 1;
              r_maxrec := None; r_data := []; r_deadline := now + tp21_T1; r_src := sa; r_dst := addr_GLOBAL |} in
  fouts (process_tp_cm prio sa addr_GLOBAL data now n) = [] /\
  tget (n_rcv (fnode (process_tp_cm prio sa addr_GLOBAL data now n))) h = Some b.
Proof. exact bam_announce_opens. Qed.
Print Assumptions C01_bam_announce_opens.
Theorem C01_bam_listener_delivers : forall prio sa pgn p now n b,
  (8 < length p)%nat ->
  tget (n_rcv n) (tp21_hash sa addr_GLOBAL) = Some b -> r_data b = [] -> r_size b = len p -> r_pgn b = pgn ->
  exists n', feed prio sa addr_GLOBAL p now (npk (length p)) 0 n = (n', deliveries n prio pgn sa addr_GLOBAL p) /\
             n_rcv n' = tdel (n_rcv n) (tp21_hash sa addr_GLOBAL) /\ same_env n n'.
Proof. exact bam_listener_delivers. Qed.
Print Assumptions C01_bam_listener_delivers.

(* T01.5 — broadcast, originator: job passes at or after the successive deadlines emit DT_1 .. DT_n, one per pass, in
   order, each carrying dt_payload p k (the frames the listener theorem consumes), and release the session after DT_n *)
Theorem C01_bam_originator_sends_all : forall key (times : list Z) n b,
  tget (n_snd n) key = Some b -> s_state b = ST_SENDING_BM -> 0 < s_deadline b -> 0 < n_bam_iv n ->
  0 <= s_next b -> s_next b + Z.of_nat (length times) = s_num b -> (0 < length times)%nat ->
  late_enough (s_deadline b) (n_bam_iv n) times ->
  let '(n', os) := bam_run key times n in
  os = dts_from (s_src b) (s_dst b) (s_data b) (s_next b) (length times) /\
  n_snd n' = tdel (n_snd n) key.
Proof. exact bam_originator_sends_all. Qed.
Print Assumptions C01_bam_originator_sends_all.

From J1939 Require Import SkelDefs FlowDefs.
From J1939.gen Require Import SkelGen.
From J1939P Require Import FlowProofs OrderProofs.

(* "including replies that are processed before the sending call has returned": on skeletons generated from the current
   source, send_pgn has stored the send session before the RTS goes out and the burst loop has updated the session record
   before each data frame goes out — on every path *)
Theorem C01_state_before_send : never_commits_after_send order_send21 /\ never_commits_after_send order_burst21.
Proof. split; [exact order_send21_ok|exact order_burst21_ok]. Qed.
Print Assumptions C01_state_before_send.

From J1939P Require Net21 Net21Proofs.
(* T01.8 — end to end: two model nodes on one bus (Net21.v: frames first, then both job threads; the clock advances only when
   the network is idle).  A calls send_pgn with ANY payload p of 9..1785 bytes for B's address, with ANY window sizes on the
   two sides: after finitely many steps nothing is queued, no session is left on either side, B's subscribers have been
   called exactly once each with exactly p, and A has put on the wire exactly RTS, DT_1 .. DT_n in order.  The network
   model itself is run against two real stacks on the virtual bus at every check (closed-loop correspondence). *)
Theorem C01_closed_loop_delivers : forall prio sa dest dp pf p t0 A0 B0,
  0 <= prio < 8 -> 0 <= sa < 255 -> 0 <= dest < 255 -> 0 <= pf < 240 -> 0 <= dp < 2 -> 8 < len p <= 1785 -> 0 < t0 ->
  n_snd A0 = [] /\ n_rcv A0 = [] /\ n_timers A0 = [] /\ n_cmdt_iv A0 = None /\ accepts A0 sa = true /\ 1 <= n_maxp A0 ->
  n_snd B0 = [] /\ n_rcv B0 = [] /\ n_timers B0 = [] /\ accepts B0 dest = true /\ 1 <= n_maxp B0 ->
  let pv := dp * 65536 + pf * 256 in
  let num := Z.of_nat (npk (length p)) in
  exists j, let s := Net21.steps j (Net21.net_send (Net21.net0 A0 B0 t0) dp pf dest prio sa p) in
    Net21.qa s = [] /\ Net21.qb s = [] /\
    n_snd (Net21.na s) = [] /\ n_rcv (Net21.na s) = [] /\ n_snd (Net21.nb s) = [] /\ n_rcv (Net21.nb s) = [] /\
    Net21.evb s = deliveries B0 7 pv sa dest p /\
    Net21.wab s = tp21_rts sa dest prio pv (len p) num (Z.min (n_maxp A0) num)
                  :: map (fun k => tp21_dt sa dest (dt_payload p (Z.of_nat k))) (seq 0 (npk (length p))).
Proof. exact Net21Proofs.closed_loop_delivers. Qed.
Print Assumptions C01_closed_loop_delivers.

From J1939P Require Net21Bam.
(* T01.9 — end to end, broadcast: A calls send_pgn for the global address with ANY payload of 9..1785 bytes; the network's
   clock advances by A's packet interval between the packets (shorter than the listener's T1); after finitely many steps
   nothing is queued, no session is left, B's listeners have been called exactly once each with exactly p, and A has put
   on the wire exactly BAM, DT_1 .. DT_n *)
Theorem C01_bam_closed_loop_delivers : forall prio sa dp pf p t0 A0 B0,
  0 <= prio < 8 -> 0 <= sa < 255 -> 0 <= pf < 240 -> 0 <= dp < 2 -> 8 < len p <= 1785 -> 0 < t0 ->
  0 < n_bam_iv A0 < tp21_T1 ->
  n_snd A0 = [] /\ n_rcv A0 = [] /\ n_timers A0 = [] ->
  n_snd B0 = [] /\ n_rcv B0 = [] /\ n_timers B0 = [] ->
  let pv := dp * 65536 + pf * 256 in
  exists j, let s := Net21.steps j (Net21.net_send (Net21.net0 A0 B0 t0) dp pf 255 prio sa p) in
    Net21.qa s = [] /\ Net21.qb s = [] /\
    n_snd (Net21.na s) = [] /\ n_rcv (Net21.na s) = [] /\ n_snd (Net21.nb s) = [] /\ n_rcv (Net21.nb s) = [] /\
    Net21.evb s = deliveries B0 7 pv sa addr_GLOBAL p /\
    Net21.wab s = tp21_bam sa prio pv (len p) (Z.of_nat (npk (length p)))
                  :: map (fun k => tp21_dt sa addr_GLOBAL (dt_payload p (Z.of_nat k))) (seq 0 (npk (length p))).
Proof. exact Net21Bam.bam_closed_loop_delivers. Qed.
Print Assumptions C01_bam_closed_loop_delivers.

(* the same for EVERY group that travels as a broadcast: a PDU1 group sent to the global address (delivered under PGN dp.pf.00)
   and a PDU2 group with any group extension (delivered under PGN dp.pf.ps) — DM1 (0xFECA) and the like *)
Theorem C01_bam_closed_loop_delivers_pdu1_and_pdu2 : forall prio sa dp pf ps p t0 A0 B0,
  0 <= prio < 8 -> 0 <= sa < 255 -> (0 <= pf < 240 /\ ps = 255) \/ (240 <= pf < 256 /\ 0 <= ps < 256) ->
  0 <= dp < 2 -> 8 < len p <= 1785 -> 0 < t0 ->
  0 < n_bam_iv A0 < tp21_T1 ->
  n_snd A0 = [] /\ n_rcv A0 = [] /\ n_timers A0 = [] ->
  n_snd B0 = [] /\ n_rcv B0 = [] /\ n_timers B0 = [] ->
  let pv := Net21Bam.bam_pgn dp pf ps in
  exists j, let s := Net21.steps j (Net21.net_send (Net21.net0 A0 B0 t0) dp pf ps prio sa p) in
    Net21.qa s = [] /\ Net21.qb s = [] /\
    n_snd (Net21.na s) = [] /\ n_rcv (Net21.na s) = [] /\ n_snd (Net21.nb s) = [] /\ n_rcv (Net21.nb s) = [] /\
    Net21.evb s = deliveries B0 7 pv sa addr_GLOBAL p /\
    Net21.wab s = tp21_bam sa prio pv (len p) (Z.of_nat (npk (length p)))
                  :: map (fun k => tp21_dt sa addr_GLOBAL (dt_payload p (Z.of_nat k))) (seq 0 (npk (length p))).
Proof. exact Net21Bam.bam_closed_loop_delivers_any. Qed.
Print Assumptions C01_bam_closed_loop_delivers_pdu1_and_pdu2.

From J1939P Require Net21Seq.

(* T10.18 / T01.12: a HISTORY of transfers.  Any number of J1939-21 connection-mode transfers (any payloads of 9..1785 bytes, any
   PGNs and priorities) run one after the other between two model nodes, each submitted when the network has come to rest:
   there is a run in which ALL of them complete — after every one the nodes meet the premises of the closed-loop theorem
   again (nothing pending, same configuration, same subscribers), so send_pgn is accepted again and the next one
   delivers; B's subscribers have got every payload exactly once, in order, and the wire carries exactly the frames of
   every transfer, in order.  (seq_reach: submit, run j steps, submit the next ...) *)
Theorem C01_sequence_of_transfers_all_deliver : forall sa dest, 0 <= sa < 255 -> 0 <= dest < 255 ->
  forall ms s, Forall Net21Seq.msg_ok ms -> Net21.qa s = [] -> Net21.qb s = [] -> 0 < Net21.clk s ->
  Net21Seq.premA sa (Net21.na s) -> Net21Seq.premB dest (Net21.nb s) ->
  exists s', Net21Seq.seq_reach sa dest s ms s' /\
    Net21.qa s' = [] /\ Net21.qb s' = [] /\ Net21Seq.premA sa (Net21.na s') /\ Net21Seq.premB dest (Net21.nb s') /\
    Net21.evb s' = Net21.evb s ++ concat (map (fun m => deliveries (Net21.nb s) 7 (Net21Seq.m_dp m * 65536 + Net21Seq.m_pf m * 256) sa dest
                                                                  (Net21Seq.m_data m)) ms) /\
    Net21.wab s' = Net21.wab s ++ concat (map (Net21Seq.wire_of sa dest (n_maxp (Net21.na s))) ms).
Proof. exact Net21Seq.sequence_delivers. Qed.
Print Assumptions C01_sequence_of_transfers_all_deliver.

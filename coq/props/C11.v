(* C11 — FD multi-PG packing preserves every group and honours frame and time limits.
   Header/parse expressions, length table, hash/unhash are generated from /repo; packing, collection and
   the receive loop are those of Model22 (tied by correspondence). *)
From J1939 Require Import Base CodecGlue Model21 Model22.
From J1939.gen Require Import Codec Tp21Gen CaGen Tp22Gen.
From J1939P Require Import CodecProofs Flat MpgProofs.

(* T11.3: unpack (pack groups ++ ANY padding) = groups, for EVERY list of groups *)
Theorem C11_unpack_pack : forall (l : list cpg) (k : nat) fuel,
  Forall cpg_ok l -> (length l < fuel)%nat ->
  unpack fuel (concat (map mpg_pack1 l) ++ mpg_padding k 0) = map grp_of l.
Proof. exact unpack_pack. Qed.
Print Assumptions C11_unpack_pack.

(* the receive handler delivers exactly the unpacked groups, each to the matching subscribers, in order *)
Theorem C11_receiver_delivers_unpacked_groups : forall fuel prio sa dest data m,
  fst (flat22 (process_multi_pg fuel prio sa dest data m)) = (m, group_deliveries m prio sa dest (unpack fuel data)).
Proof. exact process_multi_pg_is_unpack. Qed.
Print Assumptions C11_receiver_delivers_unpacked_groups.

(* T11.2/T11.4: frame shape and identifier *)
Theorem C11_frame_shape : forall ff l src dst,
  (packed_len l <= 64)%nat ->
  exists fr v, send_multi_pg ff l src dst = Some fr /\ fd_len (packed_len l) = Some v /\
    f_data fr = concat (map mpg_pack1 l) ++ mpg_padding (Z.to_nat v - packed_len l) 0 /\
    Z.of_nat (length (f_data fr)) = v /\ legal_fd v = true /\ v <= 64 /\ f_fd fr = true /\
    (ff = ff_FBFF -> f_ext fr = false /\ f_id fr = src) /\
    (ff <> ff_FBFF -> f_ext fr = true /\ f_id fr = mpg_feff_id (fold_left (fun p c => Z.min (g_prio c) p) l 7) dst src).
Proof. exact frame_shape. Qed.
Print Assumptions C11_frame_shape.

Theorem C11_fd_length_table_legal : forall i : nat, (i <= 64)%nat ->
  exists v, fd_len i = Some v /\ legal_fd v = true /\ Z.of_nat i <= v <= 64.
Proof. exact fd_len_legal. Qed.
Print Assumptions C11_fd_length_table_legal.

(* T11.1/T11.6: fill accounting is preserved by every submission (incl. overflow into the next counter) *)
Theorem C11_fill_accounting : forall fuel session ff sa dst c now deadline t t',
  tbl_ok t -> 1 <= g_len c <= 60 ->
  mpg_collect fuel session ff sa dst c now deadline t = Some t' -> tbl_ok t'.
Proof. exact collect_keeps_accounting. Qed.
Print Assumptions C11_fill_accounting.

(* T11.5: deadline *)
Theorem C11_emitted_at_deadline : forall key now nw m k b fr,
  tget (f_mpg m) key = Some b -> m_deadline b <= now ->
  (let '(ff, _, sa, dst) := tp22_unhash_mpg key in send_multi_pg ff (m_cpgs b) sa dst) = Some fr ->
  flat22 (mpg_pass [key] now nw m k) =
  let '(s, os, r) := flat22 (k (set_fmpg m (tdel (f_mpg m) key)) nw) in (s, OTx fr :: os, r).
Proof. exact mpg_emitted_at_deadline. Qed.
Print Assumptions C11_emitted_at_deadline.
Theorem C11_kept_before_deadline : forall key now nw m k b,
  tget (f_mpg m) key = Some b -> now < m_deadline b -> mpg_pass [key] now nw m k = k m (minw nw (m_deadline b)).
Proof. exact mpg_kept_before_deadline. Qed.
Print Assumptions C11_kept_before_deadline.
Theorem C11_submission_wakes_job_thread : forall m now dp pf ps prio sa data tl ff m',
  len data <= tp22_TP -> tl <> 0 -> flat22 (send_pgn22 m now dp pf ps prio sa data tl ff) = (m', [], RDone 1) ->
  n_wakes (base m') = n_wakes (base m) + 1.
Proof. exact submit_wakes. Qed.
Print Assumptions C11_submission_wakes_job_thread.

From J1939P Require NoOversleep22.
(* the job thread wakes up not later than the deadline of any multi-PG buffer (and any FD session) still pending *)
Theorem C11_job_thread_never_sleeps_past_a_buffer_deadline : forall m now,
  tnodup (f_rcv m) -> tnodup (f_mpg m) -> tnodup (f_snd m) ->
  match flat22 (dll_job22 m now (fun m' nw' => Done m' nw')) with
  | (m', _, RDone nw') => nw' <= now + 5000000 /\ NoOversleep22.covered22 m' nw'
  | (_, _, RRaise _) => True
  end.
Proof. exact NoOversleep22.dll_job22_wakeup_covers_every_deadline. Qed.
Print Assumptions C11_job_thread_never_sleeps_past_a_buffer_deadline.

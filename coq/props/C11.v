(* C11 — FD multi-PG packing preserves every group and honours frame and time limits.
   Header/parse expressions, length table, hash/unhash are generated from /repo; packing, collection and
   the receive loop are those of Model22 (tied by correspondence). *)
From J1939 Require Import Base CodecGlue Model21 Model22.
From J1939.gen Require Import Codec Tp21Gen CaGen Tp22Gen.
From J1939P Require Import CodecProofs Flat MpgProofs.

(* T11.3: unpack (pack groups ++ ANY padding) = groups, for EVERY list of groups *)
Theorem C11_unpack_pack : forall (l : list cpg) (k : nat) fuel,
  Forall cpg_ok l -> (length l < fuel)%nat ->
  unpack fuel (concat (map mpg_pack1 l) ++ mpg_padding k 0) = map grp_of l.
Proof. exact unpack_pack. Qed.
Print Assumptions C11_unpack_pack.

(* the receive handler delivers exactly the unpacked groups, each to the matching subscribers, in order *)
Theorem C11_receiver_delivers_unpacked_groups : forall fuel prio sa dest data m,
  fst (flat22 (process_multi_pg fuel prio sa dest data m)) = (m, group_deliveries m prio sa dest (unpack fuel data)).
Proof. exact process_multi_pg_is_unpack. Qed.
Print Assumptions C11_receiver_delivers_unpacked_groups.

(* T11.2/T11.4: frame shape and identifier *)
Theorem C11_frame_shape : forall ff l src dst,
  (packed_len l <= 64)%nat ->
  exists fr v, send_multi_pg ff l src dst = Some fr /\ fd_len (packed_len l) = Some v /\
    f_data fr = concat (map mpg_pack1 l) ++ mpg_padding (Z.to_nat v - packed_len l) 0 /\
    Z.of_nat (length (f_data fr)) = v /\ legal_fd v = true /\ v <= 64 /\ f_fd fr = true /\
    (ff = ff_FBFF -> f_ext fr = false /\ f_id fr = src) /\
    (ff <> ff_FBFF -> f_ext fr = true /\ f_id fr = mpg_feff_id (fold_left (fun p c => Z.min (g_prio c) p) l 7) dst src).
Proof. exact frame_shape. Qed.
Print Assumptions C11_frame_shape.

Theorem C11_fd_length_table_legal : forall i : nat, (i <= 64)%nat ->
  exists v, fd_len i = Some v /\ legal_fd v = true /\ Z.of_nat i <= v <= 64.
Proof. exact fd_len_legal. Qed.
Print Assumptions C11_fd_length_table_legal.

(* T11.1/T11.6: fill accounting is preserved by every submission (incl. overflow into the next counter) *)
Theorem C11_fill_accounting : forall fuel session ff sa dst c now deadline t t',
  tbl_ok t -> 1 <= g_len c <= 60 ->
  mpg_collect fuel session ff sa dst c now deadline t = Some t' -> tbl_ok t'.
Proof. exact collect_keeps_accounting. Qed.
Print Assumptions C11_fill_accounting.

(* T11.5: deadline *)
Theorem C11_emitted_at_deadline : forall key now nw m k b fr,
  tget (f_mpg m) key = Some b -> m_deadline b <= now ->
  (let '(ff, _, sa, dst) := tp22_unhash_mpg key in send_multi_pg ff (m_cpgs b) sa dst) = Some fr ->
  flat22 (mpg_pass [key] now nw m k) =
  let '(s, os, r) := flat22 (k (set_fmpg m (tdel (f_mpg m) key)) nw) in (s, OTx fr :: os, r).
Proof. exact mpg_emitted_at_deadline. Qed.
Print Assumptions C11_emitted_at_deadline.
Theorem C11_kept_before_deadline : forall key now nw m k b,
  tget (f_mpg m) key = Some b -> now < m_deadline b -> mpg_pass [key] now nw m k = k m (minw nw (m_deadline b)).
Proof. exact mpg_kept_before_deadline. Qed.
Print Assumptions C11_kept_before_deadline.
Theorem C11_submission_wakes_job_thread : forall m now dp pf ps prio sa data tl ff m',
  len data <= tp22_TP -> tl <> 0 -> flat22 (send_pgn22 m now dp pf ps prio sa data tl ff) = (m', [], RDone 1) ->
  n_wakes (base m') = n_wakes (base m) + 1.
Proof. exact submit_wakes. Qed.
Print Assumptions C11_submission_wakes_job_thread.

From J1939P Require NoOversleep22.
(* the job thread wakes up not later than the deadline of any multi-PG buffer (and any FD session) still pending *)
Theorem C11_job_thread_never_sleeps_past_a_buffer_deadline : forall m now,
  tnodup (f_rcv m) -> tnodup (f_mpg m) -> tnodup (f_snd m) ->
  match flat22 (dll_job22 m now (fun m' nw' => Done m' nw')) with
  | (m', _, RDone nw') => nw' <= now + 5000000 /\ NoOversleep22.covered22 m' nw'
  | (_, _, RRaise _) => True
  end.
Proof. exact NoOversleep22.dll_job22_wakeup_covers_every_deadline. Qed.
Print Assumptions C11_job_thread_never_sleeps_past_a_buffer_deadline.

(* T11.10: multi-PG end to end.  In the closed loop of two FD model nodes, ANY list of parameter groups of 1..60 bytes (any
   data page, PDU1 format, priority, payload, positive time limit) submitted at one instant to one destination, as long as
   they fit one frame (sum of 4 + length <= 64), leaves in ONE frame — the model's own packer applied to exactly these
   groups in submission order — at exactly t0 + the smallest of the limits; B's subscribers are called once per group, in
   order, with the group's own PGN and byte-identical data (and the frame's priority, the minimum); afterwards nothing is
   queued and no collection buffer is left.  This network model is run against two real FD stacks at every check. *)
From J1939P Require Net21Proofs Net22 Net22Bam Net22Mpg.
Theorem C11_closed_loop_delivers_every_group : forall sa ps t0 A0 B0 g0 gs,
  0 <= sa < 255 -> 0 <= ps < 255 -> 0 < t0 ->
  f_snd A0 = [] /\ f_rcv A0 = [] /\ f_mpg A0 = [] /\ n_timers (base A0) = [] ->
  f_snd B0 = [] /\ f_rcv B0 = [] /\ f_mpg B0 = [] /\ n_timers (base B0) = [] /\ Flat.accepts (base B0) ps = true ->
  Forall Net22Mpg.subm_ok (g0 :: gs) ->
  fold_right (fun g acc => 4 + len (Net22Mpg.u_dat g) + acc) 0 (g0 :: gs) <= 64 ->
  let D := fold_left Z.min (map Net22Mpg.u_tl gs) (Net22Mpg.u_tl g0) in
  D < 5000000 ->
  let cs := map Net22Mpg.cpg_of (g0 :: gs) in
  let pmin := fold_left (fun p c => Z.min (g_prio c) p) cs 7 in
  let s0 := fold_left (Net22Mpg.net22_submit sa ps) (g0 :: gs) (Net22.net22_0 A0 B0 t0) in
  exists fr, send_multi_pg ff_FEFF cs sa ps = Some fr /\
    let s := Net22.steps22 3 s0 in
    Net22.pa s = [] /\ Net22.pb s = [] /\ f_mpg (Net22.fa s) = [] /\ f_snd (Net22.fa s) = [] /\ f_rcv (Net22.fa s) = [] /\
    Net22.fb s = B0 /\
    Net22.evb2 s = concat (map (fun g => deliveries (base B0) pmin (Net22Mpg.u_dp g * 65536 + Net22Mpg.u_pf g * 256) sa ps
                                                     (Net22Mpg.u_dat g)) (g0 :: gs)) /\
    Net22.wab2 s = [fr] /\
    Net22Bam.tlog22 3 s0 = [(t0 + D, fr)].
Proof. exact Net22Mpg.mpg_closed_loop_delivers. Qed.
Print Assumptions C11_closed_loop_delivers_every_group.

(* C03 — the wire format interoperates with an independent SAE J1939-21 implementation (Sae21.v).
   Each generated builder and each generated field extraction is tied to the independent layout separately. *)
From J1939 Require Import Base CodecGlue Model21 Sae21.
From J1939.gen Require Import Codec Tp21Gen CaGen.
From J1939P Require Import CodecProofs Flat Tp21Seg Tp21Resp Tp21Orig WireProofs.

Theorem C03_spec_roundtrip : forall m, cm_wf m -> dec_cm (enc_cm m) = Some m.
Proof. exact stack_frames_decode. Qed.
Print Assumptions C03_spec_roundtrip.

Theorem C03_rts_is_spec : forall sa da prio pgn size n limit,
  0 <= prio < 8 -> 0 <= da < 256 -> 0 <= sa < 256 ->
  tp21_rts sa da prio pgn size n limit =
  {| f_id := sae_id prio (sae_tp_cm_pgn da) sa; f_ext := true; f_fd := false; f_data := enc_cm (RTS size n limit pgn) |}.
Proof. exact rts_is_spec. Qed.
Print Assumptions C03_rts_is_spec.
Theorem C03_cts_is_spec : forall sa da n next pgn, 0 <= da < 256 -> 0 <= sa < 256 ->
  tp21_cts sa da n next pgn =
  {| f_id := sae_id 7 (sae_tp_cm_pgn da) sa; f_ext := true; f_fd := false; f_data := enc_cm (CTS n next pgn) |}.
Proof. exact cts_is_spec. Qed.
Print Assumptions C03_cts_is_spec.
Theorem C03_eom_ack_is_spec : forall sa da size n pgn, 0 <= da < 256 -> 0 <= sa < 256 ->
  tp21_eom_ack sa da size n pgn =
  {| f_id := sae_id 7 (sae_tp_cm_pgn da) sa; f_ext := true; f_fd := false; f_data := enc_cm (EOMA size n pgn) |}.
Proof. exact eom_ack_is_spec. Qed.
Print Assumptions C03_eom_ack_is_spec.
Theorem C03_bam_is_spec : forall sa prio pgn size n, 0 <= prio < 8 -> 0 <= sa < 256 ->
  tp21_bam sa prio pgn size n =
  {| f_id := sae_id prio (sae_tp_cm_pgn 255) sa; f_ext := true; f_fd := false; f_data := enc_cm (BAM size n pgn) |}.
Proof. exact bam_is_spec. Qed.
Print Assumptions C03_bam_is_spec.
Theorem C03_abort_is_spec : forall sa da reason pgn, 0 <= da < 256 -> 0 <= sa < 256 ->
  tp21_abort sa da reason pgn =
  {| f_id := sae_id 7 (sae_tp_cm_pgn da) sa; f_ext := true; f_fd := false; f_data := enc_cm (ABORT reason pgn) |}.
Proof. exact abort_is_spec. Qed.
Print Assumptions C03_abort_is_spec.
(* 1-based in-order sequence numbers, 7 data bytes, 0xFF padding *)
Theorem C03_dt_is_spec : forall sa da p (k : nat), 0 <= da < 256 -> 0 <= sa < 256 ->
  tp21_dt sa da (dt_payload p (Z.of_nat k)) =
  {| f_id := sae_id 7 (sae_tp_dt_pgn da) sa; f_ext := true; f_fd := false; f_data := enc_dt (Z.of_nat k + 1) (seg7 p k) |}.
Proof. exact dt_is_spec. Qed.
Print Assumptions C03_dt_is_spec.

Theorem C03_extraction_of_spec_frames : forall m, cm_wf m ->
  let d := enc_cm m in
  length d = 8%nat /\
  match m with
  | RTS s n l p => tp21_cm_control d = tp21_cm_RTS /\ tp21_cm_pgn d = p /\ tp21_rts_message_size d = s /\
                   tp21_rts_num_packages d = n /\ tp21_rts_max_num_packages d = l
  | CTS n x p => tp21_cm_control d = tp21_cm_CTS /\ tp21_cm_pgn d = p /\ tp21_cts_num_packages d = n /\
                 tp21_cts_next_package_number d = x - 1
  | EOMA s n p => tp21_cm_control d = tp21_cm_EOM_ACK /\ tp21_cm_pgn d = p
  | BAM s n p => tp21_cm_control d = tp21_cm_BAM /\ tp21_cm_pgn d = p /\ tp21_bam_message_size d = s /\
                 tp21_bam_num_packages d = n
  | ABORT r p => tp21_cm_control d = tp21_cm_ABORT /\ tp21_cm_pgn d = p
  end.
Proof. exact extraction_of_spec_frames. Qed.
Print Assumptions C03_extraction_of_spec_frames.

Theorem C03_identifier_layout : forall prio pf da sa,
  0 <= prio < 8 -> 0 <= pf < 256 -> 0 <= da < 256 -> 0 <= sa < 256 ->
  mid_can_id_of prio (pgn_value_of 0 pf da) sa = prio * 67108864 + pf * 65536 + da * 256 + sa.
Proof. exact identifier_layout. Qed.
Print Assumptions C03_identifier_layout.

(* T03.4/T03.5 — conformance of the two roles against ANY legal choice of the peer is C01's role theorems:
   C01_window_burst (every grant g >= 1, any holds: C01/C09 cts_hold) and C01_responder_dt_phase (any RTS limit,
   any arrival times); restated here only by reference. *)

(* C03 — the wire format interoperates with an independent SAE J1939-21 implementation (Sae21.v).
   Each generated builder and each generated field extraction is tied to the independent layout separately. *)
From J1939 Require Import Base CodecGlue Model21 Model22 Sae21 Sae22.
From J1939.gen Require Import Codec Tp21Gen CaGen Tp22Gen.
From J1939P Require Import CodecProofs Flat Tp21Seg Tp21Resp Tp21Orig WireProofs Net22Proofs WireProofs22.

Theorem C03_spec_roundtrip : forall m, cm_wf m -> dec_cm (enc_cm m) = Some m.
Proof. exact stack_frames_decode. Qed.
Print Assumptions C03_spec_roundtrip.

Theorem C03_rts_is_spec : forall sa da prio pgn size n limit,
  0 <= prio < 8 -> 0 <= da < 256 -> 0 <= sa < 256 ->
  tp21_rts sa da prio pgn size n limit =
  {| f_id := sae_id prio (sae_tp_cm_pgn da) sa; f_ext := true; f_fd := false; f_data := enc_cm (RTS size n limit pgn) |}.
Proof. exact rts_is_spec. Qed.
Print Assumptions C03_rts_is_spec.
Theorem C03_cts_is_spec : forall sa da n next pgn, 0 <= da < 256 -> 0 <= sa < 256 ->
  tp21_cts sa da n next pgn =
  {| f_id := sae_id 7 (sae_tp_cm_pgn da) sa; f_ext := true; f_fd := false; f_data := enc_cm (CTS n next pgn) |}.
Proof. exact cts_is_spec. Qed.
Print Assumptions C03_cts_is_spec.
Theorem C03_eom_ack_is_spec : forall sa da size n pgn, 0 <= da < 256 -> 0 <= sa < 256 ->
  tp21_eom_ack sa da size n pgn =
  {| f_id := sae_id 7 (sae_tp_cm_pgn da) sa; f_ext := true; f_fd := false; f_data := enc_cm (EOMA size n pgn) |}.
Proof. exact eom_ack_is_spec. Qed.
Print Assumptions C03_eom_ack_is_spec.
Theorem C03_bam_is_spec : forall sa prio pgn size n, 0 <= prio < 8 -> 0 <= sa < 256 ->
  tp21_bam sa prio pgn size n =
  {| f_id := sae_id prio (sae_tp_cm_pgn 255) sa; f_ext := true; f_fd := false; f_data := enc_cm (BAM size n pgn) |}.
Proof. exact bam_is_spec. Qed.
Print Assumptions C03_bam_is_spec.
Theorem C03_abort_is_spec : forall sa da reason pgn, 0 <= da < 256 -> 0 <= sa < 256 ->
  tp21_abort sa da reason pgn =
  {| f_id := sae_id 7 (sae_tp_cm_pgn da) sa; f_ext := true; f_fd := false; f_data := enc_cm (ABORT reason pgn) |}.
Proof. exact abort_is_spec. Qed.
Print Assumptions C03_abort_is_spec.
(* 1-based in-order sequence numbers, 7 data bytes, 0xFF padding *)
Theorem C03_dt_is_spec : forall sa da p (k : nat), 0 <= da < 256 -> 0 <= sa < 256 ->
  tp21_dt sa da (dt_payload p (Z.of_nat k)) =
  {| f_id := sae_id 7 (sae_tp_dt_pgn da) sa; f_ext := true; f_fd := false; f_data := enc_dt (Z.of_nat k + 1) (seg7 p k) |}.
Proof. exact dt_is_spec. Qed.
Print Assumptions C03_dt_is_spec.

Theorem C03_extraction_of_spec_frames : forall m, cm_wf m ->
  let d := enc_cm m in
  length d = 8%nat /\
  match m with
  | RTS s n l p => tp21_cm_control d = tp21_cm_RTS /\ tp21_cm_pgn d = p /\ tp21_rts_message_size d = s /\
                   tp21_rts_num_packages d = n /\ tp21_rts_max_num_packages d = l
  | CTS n x p => tp21_cm_control d = tp21_cm_CTS /\ tp21_cm_pgn d = p /\ tp21_cts_num_packages d = n /\
                 tp21_cts_next_package_number d = x - 1
  | EOMA s n p => tp21_cm_control d = tp21_cm_EOM_ACK /\ tp21_cm_pgn d = p
  | BAM s n p => tp21_cm_control d = tp21_cm_BAM /\ tp21_cm_pgn d = p /\ tp21_bam_message_size d = s /\
                 tp21_bam_num_packages d = n
  | ABORT r p => tp21_cm_control d = tp21_cm_ABORT /\ tp21_cm_pgn d = p
  end.
Proof. exact extraction_of_spec_frames. Qed.
Print Assumptions C03_extraction_of_spec_frames.

Theorem C03_identifier_layout : forall prio pf da sa,
  0 <= prio < 8 -> 0 <= pf < 256 -> 0 <= da < 256 -> 0 <= sa < 256 ->
  mid_can_id_of prio (pgn_value_of 0 pf da) sa = prio * 67108864 + pf * 65536 + da * 256 + sa.
Proof. exact identifier_layout. Qed.
Print Assumptions C03_identifier_layout.

(* T03.4/T03.5 — conformance of the two roles against ANY legal choice of the peer is C01's role theorems:
   C01_window_burst (every grant g >= 1, any holds: C01/C09 cts_hold) and C01_responder_dt_phase (any RTS limit,
   any arrival times); restated here only by reference. *)

(* ------------------------------------------------------------------------------------------------------------------
   J1939-22 (CAN FD): the same against the independent layout of Sae22.v (written from the standard's tables with
   / and mod, with a decoder and a reassembler of its own). *)
Theorem C03_fd_spec_roundtrip : forall m, cm22_wf m -> dec_cm22 (enc_cm22 m) = Some m.
Proof. exact dec_enc_cm22. Qed.
Print Assumptions C03_fd_spec_roundtrip.

Theorem C03_fd_rts_is_spec : forall prio sa da s pgn size nseg limit,
  0 <= prio < 8 -> 0 <= da < 256 -> 0 <= sa < 256 -> 0 <= s < 16 -> 0 <= limit < 256 ->
  tp22_rts prio sa da s pgn size nseg limit =
  {| f_id := sae_id prio (sae_fd_cm_pgn da) sa; f_ext := true; f_fd := true; f_data := enc_cm22 (RTS22 s size nseg limit pgn) |}.
Proof. exact fd_rts_is_spec. Qed.
Print Assumptions C03_fd_rts_is_spec.
Theorem C03_fd_cts_is_spec : forall sa da s count next pgn,
  0 <= da < 256 -> 0 <= sa < 256 -> 0 <= s < 16 -> 0 <= count < 256 ->
  tp22_cts sa da s count next pgn =
  {| f_id := sae_id 7 (sae_fd_cm_pgn da) sa; f_ext := true; f_fd := true; f_data := enc_cm22 (CTS22 s next count pgn) |}.
Proof. exact fd_cts_is_spec. Qed.
Print Assumptions C03_fd_cts_is_spec.
Theorem C03_fd_eom_status_is_spec : forall sa da s size nseg pgn,
  0 <= da < 256 -> 0 <= sa < 256 -> 0 <= s < 16 ->
  tp22_eom_status sa da s size nseg pgn =
  {| f_id := sae_id 7 (sae_fd_cm_pgn da) sa; f_ext := true; f_fd := true; f_data := enc_cm22 (EOMS22 s size nseg pgn) |}.
Proof. exact fd_eom_status_is_spec. Qed.
Print Assumptions C03_fd_eom_status_is_spec.
Theorem C03_fd_eom_ack_is_spec : forall sa da s size nseg pgn,
  0 <= da < 256 -> 0 <= sa < 256 -> 0 <= s < 16 ->
  tp22_eom_ack sa da s size nseg pgn =
  {| f_id := sae_id 7 (sae_fd_cm_pgn da) sa; f_ext := true; f_fd := true; f_data := enc_cm22 (EOMA22 s size nseg pgn) |}.
Proof. exact fd_eom_ack_is_spec. Qed.
Print Assumptions C03_fd_eom_ack_is_spec.
Theorem C03_fd_bam_is_spec : forall prio sa s pgn size nseg,
  0 <= prio < 8 -> 0 <= sa < 256 -> 0 <= s < 16 ->
  tp22_bam prio sa s pgn size nseg =
  {| f_id := sae_id prio (sae_fd_cm_pgn 255) sa; f_ext := true; f_fd := true; f_data := enc_cm22 (BAM22 s size nseg pgn) |}.
Proof. exact fd_bam_is_spec. Qed.
Print Assumptions C03_fd_bam_is_spec.
Theorem C03_fd_abort_is_spec : forall sa da s reason pgn,
  0 <= da < 256 -> 0 <= sa < 256 -> 0 <= s < 16 -> 0 <= reason < 256 ->
  tp22_abort sa da s reason pgn =
  {| f_id := sae_id 7 (sae_fd_cm_pgn da) sa; f_ext := true; f_fd := true; f_data := enc_cm22 (ABORT22 s reason pgn) |}.
Proof. exact fd_abort_is_spec. Qed.
Print Assumptions C03_fd_abort_is_spec.

(* the generated CAN FD length table is "the least legal length that holds n bytes" *)
Theorem C03_fd_length_table_is_least_legal : forall i : nat, (i <= 64)%nat ->
  (fd_len i = Some (fd_fit (Z.of_nat i))) /\ (Z.of_nat i <= fd_fit (Z.of_nat i) <= 64).
Proof. intros i H. split; [exact (fd_len_is_fit i H)|apply fd_fit_ge; lia]. Qed.
Print Assumptions C03_fd_length_table_is_least_legal.

(* data frames: session nibble, 24-bit 1-based segment number, the segment, 0xFF up to the next legal CAN FD length *)
Theorem C03_fd_dt_is_spec : forall sa da s k seg,
  0 <= da < 256 -> 0 <= sa < 256 -> 0 <= s < 16 -> (length seg <= 60)%nat ->
  exists seg', dt_frame sa da s k seg =
    Some ({| f_id := sae_id 7 (sae_fd_dt_pgn da) sa; f_ext := true; f_fd := true; f_data := enc_dt22 s k seg |}, seg').
Proof. exact fd_dt_is_spec. Qed.
Print Assumptions C03_fd_dt_is_spec.

Theorem C03_fd_extraction_of_spec_frames : forall m, cm22_wf m ->
  let d := enc_cm22 m in
  length d = 12%nat /\
  match m with
  | RTS22 s sz n l p => tp22_cm_control_byte d = tp22_ctl_RTS /\ tp22_cm_session_num d = s /\ tp22_cm_message_size d = sz /\
                        tp22_cm_segment_num d = n /\ byte_at d 7 = l /\ tp22_cm_pgn d = p
  | CTS22 s x c p => tp22_cm_control_byte d = tp22_ctl_CTS /\ tp22_cm_session_num d = s /\ tp22_cm_segment_num d = x /\
                     byte_at d 7 = c /\ tp22_cm_pgn d = p
  | EOMS22 s sz n p => tp22_cm_control_byte d = tp22_ctl_EOM_STATUS /\ tp22_cm_session_num d = s /\
                       tp22_cm_message_size d = sz /\ tp22_cm_segment_num d = n /\ tp22_cm_pgn d = p
  | EOMA22 s sz n p => tp22_cm_control_byte d = tp22_ctl_EOM_ACK /\ tp22_cm_session_num d = s /\
                       tp22_cm_message_size d = sz /\ tp22_cm_segment_num d = n /\ tp22_cm_pgn d = p
  | BAM22 s sz n p => tp22_cm_control_byte d = tp22_ctl_BAM /\ tp22_cm_session_num d = s /\
                      tp22_cm_message_size d = sz /\ tp22_cm_segment_num d = n /\ tp22_cm_pgn d = p
  | ABORT22 s r p => tp22_cm_control_byte d = tp22_ctl_ABORT /\ tp22_cm_session_num d = s /\ byte_at d 8 = r /\
                     tp22_cm_pgn d = p
  end.
Proof. exact fd_extraction_of_spec_frames. Qed.
Print Assumptions C03_fd_extraction_of_spec_frames.

Theorem C03_fd_dt_extraction_of_spec_frames : forall s k seg, 0 <= s < 16 -> r24 k ->
  let d := enc_dt22 s k seg in
  tp22_dt_dtfi d = 0 /\ tp22_dt_session_num d = s /\ tp22_dt_segment_num d = k.
Proof. exact fd_dt_extraction_of_spec_frames. Qed.
Print Assumptions C03_fd_dt_extraction_of_spec_frames.

(* the independent receiver reassembles the stack's data frames of ANY message to exactly that message *)
Theorem C03_fd_data_frames_reassemble : forall s p,
  0 <= s < 16 -> (0 < length p)%nat -> Z.of_nat (length p) < 16777216 ->
  let ns := ((length p + 59) / 60)%nat in
  reassemble22 s (len p) (map (fun k => enc_dt22 s (Z.of_nat k + 1) (Net22Proofs.row p k)) (seq 0 ns)) = Some p.
Proof. exact fd_data_frames_reassemble. Qed.
Print Assumptions C03_fd_data_frames_reassemble.

(* T03.4 (FD) end to end: the wire of the closed loop of two FD model nodes (C02_closed_loop_delivers), read by the
   independent receiver: RTS announcing (size, segments, limit, PGN), data frames that reassemble to p, the
   end-of-message status with the same figures; every identifier is the J1939 layout; and p is delivered. *)
Theorem C03_fd_closed_loop_wire_is_spec : forall prio sa dest dp pf p t0 A0 B0,
  0 <= prio < 8 -> 0 <= sa < 255 -> 0 <= dest < 255 -> 0 <= pf < 240 -> 0 <= dp < 2 -> 60 < len p < 16777216 -> 0 < t0 ->
  f_snd A0 = [] /\ f_rcv A0 = [] /\ f_mpg A0 = [] /\ n_timers (base A0) = [] /\ n_cmdt_iv (base A0) = None /\
    accepts (base A0) sa = true /\ 1 <= n_maxp (base A0) < 256 /\ f_rts A0 = repeat true tp22_pool_rts ->
  f_snd B0 = [] /\ f_rcv B0 = [] /\ f_mpg B0 = [] /\ n_timers (base B0) = [] /\ accepts (base B0) dest = true /\ 1 <= n_maxp (base B0) ->
  let pv := dp * 65536 + pf * 256 in
  let ns := ((length p + 59) / 60)%nat in
  let lim := Z.min (n_maxp (base A0)) (Z.of_nat ns) in
  exists j rts dts eoms, let s := Net22.steps22 j (Net22.net22_send (Net22.net22_0 A0 B0 t0) dp pf dest prio sa p) in
    Net22.evb2 s = deliveries (base B0) 7 pv sa dest p /\
    Net22.wab2 s = rts :: dts ++ [eoms] /\
    f_id rts = sae_id prio (sae_fd_cm_pgn dest) sa /\ dec_cm22 (f_data rts) = Some (RTS22 0 (len p) (Z.of_nat ns) lim pv) /\
    Forall (fun fr => f_id fr = sae_id 7 (sae_fd_dt_pgn dest) sa /\ f_ext fr = true /\ f_fd fr = true) dts /\
    reassemble22 0 (len p) (map f_data dts) = Some p /\
    f_id eoms = sae_id 7 (sae_fd_cm_pgn dest) sa /\ dec_cm22 (f_data eoms) = Some (EOMS22 0 (len p) (Z.of_nat ns) pv).
Proof. exact closed_loop22_wire_is_spec. Qed.
Print Assumptions C03_fd_closed_loop_wire_is_spec.

Example C03_fd_spec_nonvacuous :
  enc_cm22 (RTS22 3 1000 17 5 61184) = [48; 232; 3; 0; 17; 0; 0; 5; 0; 0; 239; 0] /\
  enc_dt22 3 17 [1; 2; 3; 4; 5] = [48; 17; 0; 0; 1; 2; 3; 4; 5; 255; 255; 255] /\
  reassemble22 3 5 [enc_dt22 3 1 [1; 2; 3; 4; 5]] = Some [1; 2; 3; 4; 5].
Proof. vm_compute. repeat split. Qed.

#!/usr/bin/env python3
"""regenerates MANIFEST.json from the table below (claimed checks) and properties.jsonl (the rest -> not_applicable)"""
import json, os
ROOT = os.path.dirname(os.path.dirname(os.path.abspath(__file__)))
CLAIMED = {
 'C15': dict(cat='proof', tech='Coq proof over translator-generated definitions',
   text='theorems over the codec definitions regenerated from /repo on every run (all 2^29 identifiers, all PGN and 64-bit NAME values, unbounded), plus item-level correspondence and an arithmetic oracle as failing-input search',
   note='trusted: Coq kernel+VM, tools/py2coq.py, CodecGlue.v compositions; closed under the global context'),
 'C01': dict(cat='proof', tech='Coq proof of role theorems on an executable model + correspondence by replay of the real handlers',
   text='role theorems for every payload/window/arrival time (segmentation inverse, responder RTS+DT phase by induction over packets, originator window burst, delivery rule) on Model21, whose expression-level parts are regenerated from /repo and whose handlers are replayed against the real code under virtual time (incl. zero-latency re-entrancy); oracle = exactly-once delivery on 2-4 real stacks',
   note='partial: BAM role theorems, closed loop and any-schedule network theorems (T01.5-T01.10) not proved - that quantifier is covered by the correspondence/oracle runs (testing); assumptions A1-A6 (DESIGN.md section 3)'),
 'C12': dict(cat='proof', tech='Coq proof on the ECU timer model + correspondence by replay of the real handlers + timing oracle',
   text='theorems on the model of the (repaired) timer loop: removal is complete for any number of duplicates, re-arming is drift-free for every deadline/period/clock reading, a registration is never invoked early, each due registration of a pass snapshot is invoked once; the model is replayed against the real ECU (incl. operations from inside callbacks); oracle checks firing instants against t_reg + k*delta within the scheduling latency',
   note='upper bounds are relative to the jitter J of assumption A3; thread races below handler granularity are not exhibited'),
 'C04': dict(cat='proof', tech='Coq proof of an inductive network invariant (any number of CAs, any schedule) + tie lemmas to the node handlers + correspondence',
   text='per-CA step functions proved equal to the node-level claim handlers of Model21; conflict invariant for every reachable state of a network of any number of CAs under any schedule of timer firings and FIFO deliveries; uniqueness at quiescence; an address is only left to a strictly lower NAME; loser behaviour; yield measure; arbitration compares the 64-bit NAME values (via the C15 codec theorems); real 2-4 CA contests under virtual time (incl. zero latency) checked by an oracle and replayed on the model',
   note='settle-time bound not proved (oracle checks settlement at last claim + 4 s); the network theorem is for deferred (queued) delivery, the zero-latency order is covered by the correspondence runs (which found and led to the fix of the send-before-state defect)'),
 'C13': dict(cat='proof', tech='Coq proof (invariant over claim histories, guard and source-address theorems) + correspondence + oracle',
   text='invariant over every history of timer firings and received claims (operational => address = announced), the three send entry points raise without effect in every non-operational state, frames of an operational CA carry the held address (identifier decoded with the C15 theorems), request for the claim PGN goes out from 254; real claim histories with send attempts at every phase checked by an oracle and replayed on the model',
   note='in-flight multi-packet sessions of a CA that loses its address are not examined; services built on send_pgn (Dm1/Dm22/DM14) inherit the guard by calling it'),
 'C14': dict(cat='proof', tech='Coq proof of the request codec and dispatch (induction over the CA list) + correspondence + oracle',
   text='request payload/decoder are inverse for all 24-bit values, send_request frame fields, notify dispatches a request to exactly the operational owners in order (induction over any CA list), EE00 answered by a claim from the held address, CAs without address silent; real requester/responder stacks checked by an oracle and replayed on the model',
   note='data page 1 requests are sent under PGN 0x1EA00 and treated by receivers as ordinary messages (safety half only, recorded reading)'),
 'C16': dict(cat='proof', tech='Coq proof over translator-generated definitions (DTC/lamps/DM22) and the DM1 payload model + item correspondence + end-to-end oracle',
   text='DTC pack/unpack inverse and at the J1939-73 bit positions for all 19/5/7-bit values; all 5^4 lamp combinations (finite, exhaustive by vm_compute lifted with forallb_forall); DM1 parse(build) = identity for every non-empty list of in-range trouble codes (induction); DM22 layout; definitions regenerated from /repo, DM1 payload model tied by item correspondence; real DM1 sender/subscribers on real stacks with 1..440 codes, cycle times and stop_send checked by an oracle',
   note='the cyclic-send state machine is checked on the real code only (oracle) plus C12 timer theorems; FD transports of DM1 are exercised by C02/C11 scenarios, not here'),
 'C05': dict(cat='proof', tech='Coq proof (dispatch by identifier, delivery rule, listener, bystander fold) + exhaustive one-frame enumeration on the real code + correspondence',
   text='for every PDU1 frame (any PF < 240, any destination/source/priority, any data) to a destination the stack does not accept, notify is the identity with no output (via the C15 identifier theorems); delivery rule as an iff; listener forwards only extended data frames and contains every exception (all flag combinations); any sequence of foreign frames leaves a bystander untouched; all destinations x frame kinds x stack shapes x both layers enumerated on the real code',
   note='theorems are for the J1939-21 layer and the ECU; the J1939-22 notify is covered by enumeration/oracle here and by the FD model of C02'),
 'C06': dict(cat='proof', tech='Coq proof (atomicity, release and abort at the deadline) + exhaustive fault enumeration on the real code + correspondence',
   text='any set of DT frames carrying fewer bytes than announced delivers nothing (so a lost packet can never produce a truncated/mixed payload), a session past its deadline is released by the job pass with a timeout abort exactly for connection-mode, untouched before; peer abort finishes an originator; every single-frame loss and every silence point of every transfer shape enumerated on both real layers with a follow-up transfer',
   note='time bounds are relative to the jitter of A3 and the 25 ms probe grid; the J1939-22 layer by fault enumeration/oracle (and C02 model), its theorems are not restated here'),
 'C03': dict(cat='proof', tech='Coq proof of equality between generated builders/extractors and an independent SAE layout spec + real stack against an independent reference peer + correspondence',
   text='every generated J1939-21 builder (RTS, CTS, EndOfMsgACK, BAM, Abort, DT incl. identifier) equals the encoder of an independent specification of the SAE layouts written in / and mod (Sae21.v, with its own decode(encode)=id), and every generated field extraction reads back the spec-encoded fields, for all in-range arguments; identifier layout; role conformance against any legal peer choice = C01 role theorems; both real layers exchanged messages with an independent Python reference peer making the standard\'s free choices',
   note='the Coq wire theorems cover the J1939-21 layouts; the J1939-22 layouts are checked against the independent reference peer/decoder by the oracle and by C02 item correspondence'),
 'C09': dict(cat='proof', tech='Coq proof (window/hold/grant/pacing theorems on the model) + bus-level oracle against a reference peer + correspondence',
   text='no DT while waiting for a CTS, exactly the granted packets after a CTS(g) for every g, hold emits nothing; every grant of the responder is between 1 and min(own maximum, RTS limit, remaining); a BAM session is untouched before its deadline and re-armed to now+interval by each packet; real stacks on both layers against a reference peer with windows 1..255, holds, intervals, read from the bus by an oracle',
   note='upper pacing bound is relative to the jitter J (A3); FD layer by oracle (and C02 model)'),
 'C07': dict(cat='proof', tech='Coq proof (progress of the job pass over arbitrary session tables, release, containment) + malformed-stream exploration + correspondence',
   text='the transport pass over ANY receive/send tables at ANY instant hands on a wake-up time strictly in the future or raises (no busy spin on protocol state), sessions are released at their deadline, the listener contains every exception; protocol-aware malformed frame sequences of length 1..60 with gaps up to 3.1 s on both real layers while the stack itself sends, followed by timer, table and follow-up-transfer checks; J1939-21 runs (incl. exception paths) replayed on the model',
   note='"never raises in the job pass" (T07.2) is not proved; the no-spin theorem treats a raise as an exit; J1939-22 by exploration/oracle'),
 'C02': dict(cat='proof', tech='Coq proof (segmentation, capacity, allocation freshness, pool invariant steps, inbound neutrality) on Model22 + correspondence by replay + exactly-once oracle',
   text='60-byte segmentation loses nothing for every payload; legal FD lengths (finite table generated from /repo); send_pgn refused iff the pool of its kind is exhausted and then without any effect; a new session takes a free number and a FRESH key (never overwrites a session in flight) and keeps the pool invariant; traffic in the other direction (any frame) leaves sessions and pools untouched; 2-3 real FD stacks with up to 8+4 concurrent sessions and over-capacity bursts checked by an oracle; every handler log replayed on Model22',
   note='closed-loop delivery of FD transfers is not proved in Coq (role theorems exist for J1939-21 only): covered by correspondence + oracle (testing)'),
 'C08': dict(cat='proof', tech='Coq proof by reflection on shared-access skeletons extracted from /repo + exhaustive single pre-emption of the real job thread',
   text='a checker over the tree of session-table accesses of each job-pass loop is proved sound against a semantics in which the environment may delete/insert the key before every access as far as the extracted rely allows; the skeletons and rely are regenerated from /repo on every run and accepted by vm_compute; the real job thread is parked at every executed line of every transfer shape on both layers',
   note='partial: outcome-level independence is by exploration (exhaustive single pre-emption), serialisability (T08.2) not proved; below-bytecode pre-emption not exhibited'),
 'C10': dict(cat='proof', tech='Coq proof (inbound neutrality for every frame, allocation and release preserve the pool invariant, refusal iff exhausted; J1939-21 pair rule) + history exploration + correspondence',
   text='notify of ANY frame leaves the originator sessions (number, kind, key) and both pools unchanged; allocation takes a fresh key and keeps the invariant; every release (delete + return to the pool of the session kind) keeps it; refusal iff the pool is exhausted; J1939-21: refused iff the pair is busy, a waiting session expires; histories of 1..40 transfers with losses, aborts, silence, then the full concurrency must be accepted and delivered on real stacks',
   note='the induction over a whole job pass (composition of the proved steps) is not mechanised; the steps are'),
 'C11': dict(cat='proof', tech='Coq proof (unpack(pack)=id for every group list and padding, frame shape, fill accounting, deadline) on generated header expressions + correspondence + oracle with an independent decoder',
   text='for every list of groups (1..60 bytes, 18-bit PGN) and every padding length the receive loop returns exactly the groups in order (header bit lemma by exhaustive sweep over 2^18 PGNs lifted with forallb_forall); emitted frames have a legal FD length <= 64 with skippable padding; fill accounting invariant incl. overflow; a buffer is emitted at the first pass at/after its deadline and submission wakes the job thread; real sender/receivers with FEFF/FBFF, time limits, timer-callback submission',
   note='time bound relative to jitter J; FBFF reception is not supported by the stack (decoded by the oracle)'),
 'C17': dict(cat='proof', tech='Coq proof (value conversion, DM14/DM15/DM16 layouts on generated expressions) + item correspondence + transaction oracle on real client/server facades',
   text='bytes_to_values(values_to_bytes vs) = vs for every object size/count, signed decoding is two\'s complement, the serving side extracts from the client\'s DM14 exactly command/pointer/type/count/level, DM15 seed/proceed layouts, DM16 framing lossless for 1..255 bytes; payload and field expressions regenerated from /repo; conversion/guard model tied by item correspondence; real client facade vs real server facade for all sizes, back-to-back transactions, seed/key',
   note='partial: the three cooperating state machines are not modelled in Coq (T17.3-T17.6 by oracle on the real code = testing)'),
 'C18': dict(cat='proof', tech='Coq proof (key gate, error-indicator layout) + item correspondence + failure-history oracle on real facades',
   text='the request reaches the application iff key = f(seed), otherwise error 0x1003; the 24-bit error indicator and EDCP written by the server are what the client extracts; histories of up to 6 operations mixing wrong key / refusal / error responses / absent server and successes on real facades: nothing served without the right key, every failure raised with its code, every later well-formed operation succeeds',
   note='partial: recovery (T18.3) is checked on the real code by the oracle, not proved'),
 'C19': dict(cat='proof', tech='Coq proof of the server guard decision + item correspondence of the real parse_dm14 + exhaustive injection after every bus frame',
   text='for every server state with a running requester, a DM14 from any other source (or with another pointer) yields the busy decision: a DM15 failed/busy (error 2 unless one is pending, EDCP 7) addressed to the sender and no state change; the legitimate request is accepted; the guard model is compared with the real parse_dm14 on generated states; an intruder is injected after every bus frame of every transaction shape, once and three times',
   note='partial: routing per facade state and the induction over positions (T19.2/T19.3) are by exhaustive enumeration on the real code'),
}
props = [json.loads(l) for l in open(os.path.join(ROOT, 'properties.jsonl'))]
old = {}
m = {"version": 1, "setup_cmd": "./check setup",
     "hooks": {"guard": "J1939_VERIF", "enable": "no source hooks are needed: the harness replaces time/queue/threading in the package's module namespaces from outside; checks run the code of /repo's working tree directly (PYTHONPATH=/repo)",
               "baseline_off_cmd": "cd /repo && /venv/bin/python -m pytest -ra -q -p no:cacheprovider --timeout=900 --continue-on-collection-errors",
               "source_commits": [], "add_only": True},
     "engines": [{"name": "coq-model", "path": "coq/", "serves_properties": sorted(CLAIMED),
                  "kind_free_text": "Coq 8.16 model + theorems; expression-level code regenerated from /repo by tools/py2coq.py; stateful models tied by correspondence (harness/: virtual-time execution of the real code, replayed on the model inside coqc)"}],
     "checks": [], "not_applicable": [],
     "notes": "see DESIGN.md; fix: commits in /repo and known_findings.json list the genuine defects found and repaired"}
for p in props:
    i = p['id']
    if i in CLAIMED:
        c = CLAIMED[i]
        m['checks'].append({"property_id": i, "quick_cmd": "./check %s --tier quick" % i, "thorough_cmd": "./check %s --tier thorough" % i,
                            "evidence_file": "evidence/%s.json" % i, "replay_cmd_template": "./check replay {path}", "engine": "coq-model",
                            "level_claimed": {"category": c['cat'], "text": c['text'], "design_ref": "DESIGN.md section 7, " + i},
                            "level_note": c['note'], "technique": c['tech']})
    else:
        m['not_applicable'].append({"property_id": i, "reason": "check not built"})
json.dump(m, open(os.path.join(ROOT, 'MANIFEST.json'), 'w'), indent=1)
print('claimed', sorted(CLAIMED))

#!/bin/bash
# tools/coqchk.sh — independent re-check (coqchk -o) of every props module and all it depends on; prints the context summary
# (axioms, type-in-type, unsafe fixpoints, assumed positivity).  Needs a complete build: ./check setup, then every props file.
cd /verif/coq || exit 2
for c in 01 02 03 04 05 06 07 08 09 10 11 12 13 14 15 16 17 18 19; do
  timeout 900 coqc -Q theories J1939 -Q proofs J1939P -Q props J1939Props props/C$c.v >/dev/null 2>&1 || { echo "props/C$c.v does not compile"; exit 1; }
done
mods=$(for c in 01 02 03 04 05 06 07 08 09 10 11 12 13 14 15 16 17 18 19; do echo J1939Props.C$c; done)
timeout 3600 coqchk -o -silent -Q theories J1939 -Q proofs J1939P -Q props J1939Props $mods 2>&1 | tail -16

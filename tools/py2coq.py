#!/usr/bin/env python3
"""py2coq — fail-closed translator: straight-line Python (AST of /repo/j1939) -> Coq (Z) definitions.

Usage: py2coq.py <repo_root> <out_dir>        writes <out_dir>/*.v and <out_dir>/translate_report.json

Every item is translated independently.  If an item cannot be translated (the evaluator meets a
construct it does not know) the committed reference text of that item (coq/theories/ref/<item>.def)
is emitted instead and the item is reported as "fallback"; the item-level correspondence check of
the driver is then the only tie for it.  Generated files are rewritten only when their content
changes (so `make` stays incremental).
"""
import ast, sys, os, json, hashlib

class Unsupported(Exception):
    pass

BIN = {ast.LShift: 'Z.shiftl', ast.RShift: 'Z.shiftr', ast.BitAnd: 'Z.land', ast.BitOr: 'Z.lor',
       ast.Add: 'Z.add', ast.Sub: 'Z.sub', ast.Mult: 'Z.mul'}
CMP = {ast.LtE: 'Z.leb', ast.Lt: 'Z.ltb', ast.GtE: 'Z.geb', ast.Gt: 'Z.gtb', ast.Eq: 'Z.eqb'}


def const_eval(n):
    try:
        return eval(compile(ast.Expression(n), '<c>', 'eval'), {'__builtins__': {}})
    except Exception:
        return None


def zlit(v):
    return str(v) if v >= 0 else '(%d)' % v


class SymList:
    """a Python list whose elements are Coq terms (mutable, for data[i] = ... / append)"""
    def __init__(self, elts):
        self.elts = list(elts)

    def coq(self):
        return '[' + '; '.join(self.elts) + ']'


class Ev:
    def __init__(self, env=None, selfenv=None, consts=None, ctors=None, kwargs_env=None):
        self.env = dict(env or {})
        self.selfenv = dict(selfenv or {})
        self.consts = consts or {}
        self.ctors = ctors or {}
        self.kwargs_env = kwargs_env or {}

    def dotted(self, n):
        parts = []
        while isinstance(n, ast.Attribute):
            parts.append(n.attr)
            n = n.value
        if isinstance(n, ast.Name):
            parts.append(n.id)
            return '.'.join(reversed(parts))
        return None

    def lookup_const(self, dotted):
        if dotted is None:
            return None
        cands = [dotted]
        if dotted.startswith('j1939.'):
            cands.append(dotted[len('j1939.'):])
        if dotted.startswith('self.'):
            cands.append(dotted[len('self.'):])
        for c in cands:
            if c in self.consts:
                return self.consts[c]
            # class-qualified: any key ending with '.'+c
            hits = [v for k, v in self.consts.items() if k.endswith('.' + c) or k == c]
            if len(hits) == 1:
                return hits[0]
        return None

    def e(self, n):
        if isinstance(n, ast.Constant):
            if isinstance(n.value, bool):
                return 'true' if n.value else 'false'
            if isinstance(n.value, int):
                return zlit(n.value)
            raise Unsupported('constant ' + repr(n.value))
        if isinstance(n, ast.Name):
            if n.id in self.env:
                return self.env[n.id]
            raise Unsupported('name ' + n.id)
        if isinstance(n, ast.Attribute):
            if isinstance(n.value, ast.Name) and n.value.id == 'self' and n.attr in self.selfenv:
                return self.selfenv[n.attr]
            c = self.lookup_const(self.dotted(n))
            if isinstance(c, int) and not isinstance(c, bool):
                return zlit(c)
            base = self.e(n.value)
            if isinstance(base, dict):
                if n.attr in base:
                    return base[n.attr]
            raise Unsupported('attr ' + ast.dump(n)[:100])
        if isinstance(n, ast.BinOp):
            c = const_eval(n)
            if isinstance(c, int):
                return zlit(c)
            if type(n.op) not in BIN:
                raise Unsupported('binop ' + type(n.op).__name__)
            l, r = self.e(n.left), self.e(n.right)
            if isinstance(l, (dict, SymList)) or isinstance(r, (dict, SymList)):
                raise Unsupported('binop on object')
            return '(%s %s %s)' % (BIN[type(n.op)], l, r)
        if isinstance(n, ast.List):
            return SymList([self.scalar(x) for x in n.elts])
        if isinstance(n, ast.Subscript):
            idx = const_eval(n.slice)
            base = self.e(n.value)
            if isinstance(idx, int) and idx >= 0:
                if isinstance(base, SymList):
                    if idx < len(base.elts):
                        return base.elts[idx]
                    raise Unsupported('index out of symbolic list')
                if isinstance(base, str):
                    return '(byte_at %s %d)' % (base, idx)
            raise Unsupported('subscript')
        if isinstance(n, ast.Call):
            return self.call(n)
        if isinstance(n, ast.Compare) and len(n.ops) == 1:
            op = CMP.get(type(n.ops[0]))
            if not op:
                raise Unsupported('cmp ' + type(n.ops[0]).__name__)
            return '(%s %s %s)' % (op, self.scalar(n.left), self.scalar(n.comparators[0]))
        if isinstance(n, ast.BoolOp):
            sep = ' && ' if isinstance(n.op, ast.And) else ' || '
            return '(' + sep.join(self.scalar(v) for v in n.values) + ')'
        if isinstance(n, ast.IfExp):
            return '(if %s then %s else %s)' % (self.scalar(n.test), self.scalar(n.body), self.scalar(n.orelse))
        raise Unsupported(ast.dump(n)[:100])

    def scalar(self, n):
        v = self.e(n)
        if not isinstance(v, str):
            raise Unsupported('expected scalar')
        return v

    def call(self, n):
        f = n.func
        fname = f.id if isinstance(f, ast.Name) else self.dotted(f)
        if fname == 'min' and len(n.args) == 2:
            return '(Z.min %s %s)' % (self.scalar(n.args[0]), self.scalar(n.args[1]))
        if fname == 'kwargs.get' and n.args and isinstance(n.args[0], ast.Constant):
            k = n.args[0].value
            if k in self.kwargs_env:
                return self.kwargs_env[k]
            raise Unsupported('kwargs.get ' + str(k))
        if fname == 'int.from_bytes':
            kw = {k.arg: const_eval(k.value) for k in n.keywords}
            if kw.get('byteorder') == 'little' and kw.get('signed') is False and len(n.args) == 1:
                return '(le_value %s)' % self.scalar(n.args[0])
            raise Unsupported('int.from_bytes variant')
        if fname is not None:
            short = fname.split('.')[-1]
            if short in self.ctors:
                args = [self.scalar(a) for a in n.args]
                kw = {k.arg: self.scalar(k.value) for k in n.keywords}
                return self.ctors[short](args, kw)
        raise Unsupported('call ' + str(fname))

    # statements ------------------------------------------------------------------------------
    def run(self, body, send_names=('self.__send_message', 'self._ecu.send_message')):
        """returns ('ret', term) | ('send', frame-term) | ('end', None)"""
        for st in body:
            if isinstance(st, ast.Expr) and isinstance(st.value, ast.Constant):
                continue
            if isinstance(st, ast.Assign) and len(st.targets) == 1:
                t = st.targets[0]
                if isinstance(t, ast.Subscript):
                    base = self.e(t.value)
                    idx = const_eval(t.slice)
                    if isinstance(base, SymList) and isinstance(idx, int) and 0 <= idx < len(base.elts):
                        base.elts[idx] = self.scalar(st.value)
                        continue
                    raise Unsupported('subscript assign')
                v = self.e(st.value)
                if isinstance(t, ast.Name):
                    self.env[t.id] = v
                elif isinstance(t, ast.Attribute) and isinstance(t.value, ast.Name) and t.value.id == 'self':
                    self.selfenv[t.attr] = v
                else:
                    raise Unsupported('assign target')
            elif isinstance(st, ast.AugAssign) and isinstance(st.target, ast.Name):
                if type(st.op) not in BIN:
                    raise Unsupported('augop')
                self.env[st.target.id] = '(%s %s %s)' % (BIN[type(st.op)], self.env[st.target.id], self.scalar(st.value))
            elif isinstance(st, ast.Return):
                return ('ret', self.e(st.value))
            elif isinstance(st, ast.Expr) and isinstance(st.value, ast.Call):
                d = self.dotted(st.value.func)
                if d in send_names:
                    a = st.value.args
                    kw = {k.arg: self.scalar(k.value) for k in st.value.keywords}
                    data = self.e(a[2])
                    data = data.coq() if isinstance(data, SymList) else data
                    fd = kw.get('fd_format', self.scalar(a[3]) if len(a) > 3 else 'false')
                    return ('send', '{| f_id := %s; f_ext := %s; f_fd := %s; f_data := %s |}' %
                            (self.scalar(a[0]), self.scalar(a[1]), fd, data))
                if isinstance(st.value.func, ast.Attribute) and st.value.func.attr == 'append':
                    base = self.e(st.value.func.value)
                    if isinstance(base, SymList):
                        base.elts.append(self.scalar(st.value.args[0]))
                        continue
                if d and d.startswith('logger.'):
                    continue
                raise Unsupported('expr call ' + str(d))
            elif isinstance(st, ast.If):
                # only "if <cond>: logger..." style no-op branches are tolerated
                if all(isinstance(x, ast.Expr) and isinstance(x.value, ast.Call) and
                       (self.dotted(x.value.func) or '').startswith('logger.') for x in st.body) and not st.orelse:
                    continue
                raise Unsupported('if statement')
            else:
                raise Unsupported('stmt ' + type(st).__name__)
        return ('end', None)


# ---------------------------------------------------------------------------------------------
def find(tree, cls, fn, kind=None):
    for c in ast.walk(tree):
        if isinstance(c, ast.ClassDef) and c.name == cls:
            for f in c.body:
                if isinstance(f, ast.FunctionDef) and f.name == fn:
                    decs = [ast.unparse(d) for d in f.decorator_list]
                    if kind == 'getter' and 'property' not in decs:
                        continue
                    if kind == 'setter' and not any(d.endswith('.setter') for d in decs):
                        continue
                    if kind is None and decs:
                        continue
                    return f
    raise Unsupported('%s.%s not found' % (cls, fn))


def class_consts(tree, prefix=''):
    out = {}
    for c in tree.body:
        if isinstance(c, ast.ClassDef):
            out.update(class_consts(c, prefix + c.name + '.'))
        elif isinstance(c, ast.Assign) and len(c.targets) == 1 and isinstance(c.targets[0], ast.Name):
            v = const_eval(c.value)
            if isinstance(v, (int, float)) and not isinstance(v, bool):
                out[prefix + c.targets[0].id] = v
    return out


def span_hash(src_lines, node):
    txt = '\n'.join(src_lines[node.lineno - 1: node.end_lineno])
    return hashlib.sha256(txt.encode()).hexdigest()[:16]


def us(x):
    """seconds (python float constant) -> integer microseconds"""
    return int(round(x * 1_000_000))


class Translator:
    def __init__(self, repo):
        self.repo = repo
        self.trees, self.src = {}, {}
        for m in ['message_id', 'parameter_group_number', 'name', 'j1939_21', 'j1939_22',
                  'controller_application', 'diagnostic_messages', 'Dm14Query', 'Dm14Server',
                  'memory_access', 'electronic_control_unit']:
            p = os.path.join(repo, 'j1939', m + '.py')
            s = open(p).read()
            self.trees[m] = ast.parse(s)
            self.src[m] = s.split('\n')
        self.consts = {}
        for m, t in self.trees.items():
            for k, v in class_consts(t).items():
                self.consts[k] = v
        self.items = []      # (file, name, text, status, hash, error)
        # constructors usable in builders: the object is represented by its translated fields
        self.ctors = {
            'ParameterGroupNumber': self.ctor_pgn,
            'MessageId': self.ctor_mid,
        }

    # symbolic objects
    def ctor_pgn(self, args, kw):
        a = (args + ['0', '0', '0'])[:3]
        dp, pf, ps = a
        return {'value': '(pgn_value_of %s %s %s)' % (dp, pf, ps),
                'is_pdu2_format': '(pgn_is_pdu2_of %s %s %s)' % (dp, pf, ps),
                'is_pdu1_format': '(pgn_is_pdu1_of %s %s %s)' % (dp, pf, ps)}

    def ctor_mid(self, args, kw):
        if 'can_id' in kw:
            i = kw['can_id']
            return {'priority': '(mid_prio_of_id %s)' % i, 'parameter_group_number': '(mid_pgn_of_id %s)' % i,
                    'source_address': '(mid_sa_of_id %s)' % i}
        return {'can_id': '(mid_can_id_of %s %s %s)' % (kw.get('priority', '0'), kw.get('parameter_group_number', '0'),
                                                      kw.get('source_address', '0'))}

    # item registration with fail-closed fallback
    def item(self, file, name, fn):
        try:
            text, h = fn()
            self.items.append(dict(file=file, name=name, text=text, status='translated', hash=h, error=None))
        except Exception as ex:   # Unsupported or anything else: fail closed
            self.items.append(dict(file=file, name=name, text=None, status='fallback', hash=None,
                                   error='%s: %s' % (type(ex).__name__, ex)))

    def defn(self, name, params, rtype, body, ptype='Z'):
        ps = (' (%s : %s)' % (' '.join(params), ptype)) if params else ''
        return 'Definition %s%s : %s :=\n  %s.' % (name, ps, rtype, body)

    def coqv(self, v):
        return v.coq() if isinstance(v, SymList) else v

    # ------------------------------------------------------------------ Codec
    def codec(self):
        F = 'Codec'
        mid, pg, nm = self.trees['message_id'], self.trees['parameter_group_number'], self.trees['name']
        sm, sp, sn = self.src['message_id'], self.src['parameter_group_number'], self.src['name']

        def mid_can_id():
            f = find(mid, 'MessageId', 'can_id', 'getter')
            ev = Ev(selfenv={'priority': 'prio', 'parameter_group_number': 'pgn', 'source_address': 'sa'}, consts=self.consts)
            k, v = ev.run(f.body)
            assert k == 'ret'
            return self.defn('mid_can_id', ['prio', 'pgn', 'sa'], 'Z', v), span_hash(sm, f)
        self.item(F, 'mid_can_id', mid_can_id)

        def mid_parse():
            f = find(mid, 'MessageId', 'can_id', 'setter')
            ev = Ev(env={'can_id': 'id'}, consts=self.consts)
            ev.run(f.body)
            s = ev.selfenv
            return self.defn('mid_parse', ['id'], 'Z * Z * Z', '(%s, %s, %s)' % (s['priority'], s['parameter_group_number'], s['source_address'])), span_hash(sm, f)
        self.item(F, 'mid_parse', mid_parse)

        def mid_mk():
            f = find(mid, 'MessageId', '__init__')
            # the else-branch of "if 'can_id' in kwargs"
            ifs = [s for s in f.body if isinstance(s, ast.If)]
            if len(ifs) != 1:
                raise Unsupported('MessageId.__init__ shape')
            ev = Ev(consts=self.consts, kwargs_env={'priority': 'prio', 'parameter_group_number': 'pgn', 'source_address': 'sa'})
            ev.run(ifs[0].orelse)
            s = ev.selfenv
            return self.defn('mid_mk', ['prio', 'pgn', 'sa'], 'Z * Z * Z', '(%s, %s, %s)' % (s['priority'], s['parameter_group_number'], s['source_address'])), span_hash(sm, f)
        self.item(F, 'mid_mk', mid_mk)

        def pgn_mk():
            f = find(pg, 'ParameterGroupNumber', '__init__')
            ev = Ev(env={'data_page': 'dp', 'pdu_format': 'pf', 'pdu_specific': 'ps'}, consts=self.consts)
            ev.run(f.body)
            s = ev.selfenv
            return self.defn('pgn_mk', ['dp', 'pf', 'ps'], 'Z * Z * Z', '(%s, %s, %s)' % (s['data_page'], s['pdu_format'], s['pdu_specific'])), span_hash(sp, f)
        self.item(F, 'pgn_mk', pgn_mk)

        def pgn_value():
            f = find(pg, 'ParameterGroupNumber', 'value', 'getter')
            ev = Ev(selfenv={'data_page': 'dp', 'pdu_format': 'pf', 'pdu_specific': 'ps'}, consts=self.consts)
            k, v = ev.run(f.body)
            return self.defn('pgn_value', ['dp', 'pf', 'ps'], 'Z', v), span_hash(sp, f)
        self.item(F, 'pgn_value', pgn_value)

        for nmx, prop in [('pgn_is_pdu1', 'is_pdu1_format'), ('pgn_is_pdu2', 'is_pdu2_format')]:
            def mk(prop=prop, nmx=nmx):
                f = find(pg, 'ParameterGroupNumber', prop, 'getter')
                ev = Ev(selfenv={'pdu_format': 'pf'}, consts=self.consts)
                k, v = ev.run(f.body)
                return self.defn(nmx, ['pf'], 'bool', v), span_hash(sp, f)
            self.item(F, nmx, mk)

        def pgn_from_mid():
            f = find(pg, 'ParameterGroupNumber', 'from_message_id')
            body = [s for s in f.body if not (isinstance(s, ast.If) and 'isinstance' in ast.unparse(s.test))]
            if len(body) != len(f.body) - 1:
                raise Unsupported('from_message_id shape')
            ev = Ev(env={'mid': {'parameter_group_number': 'pgn'}}, consts=self.consts)
            ev.run(body)
            s = ev.selfenv
            return self.defn('pgn_from_mid', ['pgn'], 'Z * Z * Z', '(%s, %s, %s)' % (s['data_page'], s['pdu_format'], s['pdu_specific'])), span_hash(sp, f)
        self.item(F, 'pgn_from_mid', pgn_from_mid)

        fields = ['identity_number', 'manufacturer_code', 'ecu_instance', 'function_instance', 'function',
                  'reserved_bit', 'vehicle_system', 'vehicle_system_instance', 'industry_group',
                  'arbitrary_address_capable']

        def check_trivial_props():
            # the ten properties must be plain pass-through getters/setters of a private attribute
            for fl in fields:
                g = find(nm, 'Name', fl, 'getter')
                s = find(nm, 'Name', fl, 'setter')
                gb = [x for x in g.body if not (isinstance(x, ast.Expr) and isinstance(x.value, ast.Constant))]
                sb = [x for x in s.body if not (isinstance(x, ast.Expr) and isinstance(x.value, ast.Constant))]
                if not (len(gb) == 1 and isinstance(gb[0], ast.Return) and ast.unparse(gb[0].value) == 'self.__' + fl):
                    raise Unsupported('Name.%s getter not trivial' % fl)
                if not (len(sb) == 1 and ast.unparse(sb[0]) == 'self.__%s = value' % fl):
                    raise Unsupported('Name.%s setter not trivial' % fl)

        def name_value():
            check_trivial_props()
            f = find(nm, 'Name', 'value', 'getter')
            ev = Ev(selfenv={k: k for k in fields}, consts=self.consts)
            k, v = ev.run(f.body)
            return self.defn('name_value', fields, 'Z', v), span_hash(sn, f)
        self.item(F, 'name_value', name_value)

        def name_of_value():
            check_trivial_props()
            f = find(nm, 'Name', 'value', 'setter')
            ev = Ev(env={'value': 'v'}, consts=self.consts)
            ev.run(f.body)
            return self.defn('name_of_value', ['v'], 'Z * Z * Z * Z * Z * Z * Z * Z * Z * Z', '(' + ', '.join(ev.selfenv[k] for k in fields) + ')'), span_hash(sn, f)
        self.item(F, 'name_of_value', name_of_value)

        def name_bytes():
            f = find(nm, 'Name', 'bytes', 'getter')
            ev = Ev(selfenv={'value': 'v'}, consts=self.consts)
            k, v = ev.run(f.body)
            return self.defn('name_bytes', ['v'], 'list Z', self.coqv(v)), span_hash(sn, f)
        self.item(F, 'name_bytes', name_bytes)

        def name_of_bytes():
            f = find(nm, 'Name', 'bytes', 'setter')
            ev = Ev(env={'value': 'b'}, consts=self.consts)
            ev.run(f.body)
            return 'Definition name_value_of_bytes (b : list Z) : Z :=\n  %s.' % ev.selfenv['value'], span_hash(sn, f)
        self.item(F, 'name_value_of_bytes', name_of_bytes)

        def name_ctor_reserved():
            f = find(nm, 'Name', '__init__')
            last = f.body[-1]
            if not (isinstance(last, ast.Assign) and ast.unparse(last.targets[0]) == 'self.reserved_bit'):
                raise Unsupported('Name.__init__ does not end with reserved_bit assignment')
            ev = Ev(consts=self.consts)
            return self.defn('name_ctor_reserved', [], 'Z', ev.scalar(last.value)), span_hash(sn, last)
        self.item(F, 'name_ctor_reserved', name_ctor_reserved)

        def name_ctor_dispatch():
            # value= takes precedence over bytes= over fields; recorded as a checked fact
            f = find(nm, 'Name', '__init__')
            ifs = [s for s in f.body if isinstance(s, ast.If)]
            if not (len(ifs) == 1 and ast.unparse(ifs[0].test) == "'value' in kwargs"
                    and ast.unparse(ifs[0].body[0]) == "self.value = kwargs['value']"
                    and isinstance(ifs[0].orelse[0], ast.If)
                    and ast.unparse(ifs[0].orelse[0].test) == "'bytes' in kwargs"
                    and ast.unparse(ifs[0].orelse[0].body[0]) == "self.bytes = kwargs['bytes']"):
                raise Unsupported('Name.__init__ dispatch shape')
            return '(* Name.__init__ dispatch checked: value= -> value setter; bytes= -> bytes setter; then reserved_bit *)\nDefinition name_ctor_dispatch_checked : bool := true.', span_hash(sn, ifs[0])
        self.item(F, 'name_ctor_dispatch_checked', name_ctor_dispatch)

    # ------------------------------------------------------------------ J1939-21 builders etc.
    def tp21(self):
        F = 'Tp21Gen'
        t, s = self.trees['j1939_21'], self.src['j1939_21']
        cl = 'J1939_21'

        def hashfn():
            f = find(t, cl, '_buffer_hash')
            ev = Ev(env={'src_address': 'sa', 'dest_address': 'da'}, consts=self.consts)
            k, v = ev.run(f.body)
            return self.defn('tp21_hash', ['sa', 'da'], 'Z', v), span_hash(s, f)
        self.item(F, 'tp21_hash', hashfn)

        builders = [
            ('__send_tp_dt', 'tp21_dt', ['src_address', 'dest_address'], ['data']),
            ('__send_tp_abort', 'tp21_abort', ['src_address', 'dest_address', 'reason', 'pgn_value'], []),
            ('__send_tp_cts', 'tp21_cts', ['src_address', 'dest_address', 'num_packets', 'next_packet', 'pgn_value'], []),
            ('__send_tp_eom_ack', 'tp21_eom_ack', ['src_address', 'dest_address', 'message_size', 'num_packets', 'pgn_value'], []),
            ('__send_tp_rts', 'tp21_rts', ['src_address', 'dest_address', 'priority', 'pgn_value', 'message_size', 'num_packets', 'max_cmdt_packets'], []),
            ('__send_tp_bam', 'tp21_bam', ['src_address', 'priority', 'pgn_value', 'message_size', 'num_packets'], []),
        ]
        for pyname, cname, zparams, lparams in builders:
            def mk(pyname=pyname, cname=cname, zparams=zparams, lparams=lparams):
                f = find(t, cl, pyname)
                got = [a.arg for a in f.args.args[1:]]
                if got != zparams + lparams:
                    raise Unsupported('%s parameters %s' % (pyname, got))
                ev = Ev(env={p: p for p in zparams + lparams}, consts=self.consts, ctors=self.ctors)
                k, v = ev.run(f.body)
                if k != 'send':
                    raise Unsupported('%s does not end in send' % pyname)
                ps = ''
                if zparams:
                    ps += ' (%s : Z)' % ' '.join(zparams)
                if lparams:
                    ps += ' (%s : list Z)' % ' '.join(lparams)
                return 'Definition %s%s : frame :=\n  %s.' % (cname, ps, v), span_hash(s, f)
            self.item(F, cname, mk)

        # field extractions at the top of _process_tp_cm (by target variable, per control byte branch)
        def cm_fields():
            f = find(t, cl, '_process_tp_cm')
            out = []
            ev = Ev(env={'data': 'data', 'mid': {'source_address': 'sa', 'priority': 'prio'}}, consts=self.consts)
            top = [x for x in f.body if isinstance(x, ast.Assign)]
            ev.run(top)
            out.append(self.defn('tp21_cm_control', [], 'Z', ev.env['control_byte']).replace(' : Z :=', ' (data : list Z) : Z :='))
            out.append(self.defn('tp21_cm_pgn', [], 'Z', ev.env['pgn']).replace(' : Z :=', ' (data : list Z) : Z :='))
            iff = [x for x in f.body if isinstance(x, ast.If)][0]
            branches = []
            cur = iff
            while True:
                branches.append((cur.test, cur.body))
                if len(cur.orelse) == 1 and isinstance(cur.orelse[0], ast.If):
                    cur = cur.orelse[0]
                else:
                    break
            want = {'RTS': ['message_size', 'num_packages', 'max_num_packages'],
                    'CTS': ['num_packages', 'next_package_number'],
                    'BAM': ['message_size', 'num_packages']}
            seen = set()
            for test, body in branches:
                tt = ast.unparse(test)
                for key, vars_ in want.items():
                    if tt == 'control_byte == self.ConnectionMode.%s' % key:
                        seen.add(key)
                        ev2 = Ev(env={'data': 'data'}, consts=self.consts)
                        assigns = []
                        for x in body:
                            if isinstance(x, ast.Assign) and isinstance(x.targets[0], ast.Name) and x.targets[0].id in vars_ and x.targets[0].id not in ev2.env:
                                assigns.append(x)
                            else:
                                if len(assigns) >= len(vars_):
                                    break
                        ev2.run(assigns[:len(vars_)])
                        for v in vars_:
                            out.append('Definition tp21_%s_%s (data : list Z) : Z :=\n  %s.' % (key.lower(), v, ev2.env[v]))
            if seen != set(want):
                raise Unsupported('tp_cm branches found: %s' % sorted(seen))
            return '\n'.join(out), span_hash(s, f)
        self.item(F, 'tp21_cm_fields', cm_fields)

        def consts21():
            c = self.consts
            names = ['Tr', 'Th', 'T1', 'T2', 'T3', 'T4', 'Tb']
            out = ['Definition tp21_%s : Z := %d.' % (n, us(c['J1939_21.Timeout.' + n])) for n in names]
            for n in ['RTS', 'CTS', 'EOM_ACK', 'BAM', 'ABORT']:
                out.append('Definition tp21_cm_%s : Z := %d.' % (n, c['J1939_21.ConnectionMode.' + n]))
            for n in ['BUSY', 'RESOURCES', 'TIMEOUT']:
                out.append('Definition tp21_reason_%s : Z := %d.' % (n, c['J1939_21.ConnectionAbortReason.' + n]))
            for n in ['REQUEST', 'ADDRESSCLAIM', 'DATATRANSFER', 'TP_CM', 'FEFF_MULTI_PG', 'FD_TP_CM', 'FD_TP_DT', 'DM01', 'DM14', 'DM15', 'DM16', 'DM22']:
                out.append('Definition pgn_%s : Z := %d.' % (n, c['ParameterGroupNumber.PGN.' + n]))
            out.append('Definition addr_NULL : Z := %d.' % c['ParameterGroupNumber.Address.NULL'])
            out.append('Definition addr_GLOBAL : Z := %d.' % c['ParameterGroupNumber.Address.GLOBAL'])
            h = hashlib.sha256(json.dumps({k: v for k, v in c.items() if k.startswith('J1939_21.') or k.startswith('ParameterGroupNumber.')}, sort_keys=True).encode()).hexdigest()[:16]
            return '\n'.join(out), h
        self.item(F, 'tp21_consts', consts21)

    # ------------------------------------------------------------------ CA
    def ca(self):
        F = 'CaGen'
        t, s = self.trees['controller_application'], self.src['controller_application']

        def req_payload():
            f = find(t, 'ControllerApplication', 'send_request')
            asg = [x for x in f.body if isinstance(x, ast.Assign) and isinstance(x.targets[0], ast.Name) and x.targets[0].id == 'data']
            if len(asg) != 1:
                raise Unsupported('send_request data assignment')
            ev = Ev(env={'pgn': 'pgn'}, consts=self.consts)
            v = ev.e(asg[0].value)
            # the final call: self._ecu.send_pgn(data_page, PF, destination & 0xFF, 6, source_address, data)
            call = f.body[-1]
            if not (isinstance(call, ast.Expr) and isinstance(call.value, ast.Call) and ev.dotted(call.value.func) == 'self._ecu.send_pgn'):
                raise Unsupported('send_request tail')
            a = call.value.args
            ev2 = Ev(env={'data_page': 'dp', 'destination': 'dest', 'source_address': 'sa', 'data': 'DATA'}, consts=self.consts)
            args = [ev2.scalar(x) for x in a[:5]]
            if ev2.e(a[5]) != 'DATA':
                raise Unsupported('send_request data arg')
            out = ['Definition ca_request_payload (pgn : Z) : list Z :=\n  %s.' % self.coqv(v),
                   '(* arguments of the send_pgn call issued by send_request: (data_page, pdu_format, pdu_specific, priority, src) *)',
                   'Definition ca_request_args (dp dest sa : Z) : Z * Z * Z * Z * Z :=\n  (%s, %s, %s, %s, %s).' % tuple(args)]
            return '\n'.join(out), span_hash(s, f)
        self.item(F, 'ca_request', req_payload)

        def req_decode():
            f = find(t, 'ControllerApplication', '_process_request')
            asg = [x for x in f.body if isinstance(x, ast.Assign) and isinstance(x.targets[0], ast.Name) and x.targets[0].id == 'pgn']
            ev = Ev(env={'data': 'data'}, consts=self.consts)
            v = ev.scalar(asg[0].value)
            return 'Definition ca_request_decode (data : list Z) : Z :=\n  %s.' % v, span_hash(s, asg[0])
        self.item(F, 'ca_request_decode', req_decode)

        def claimed():
            f = find(t, 'ControllerApplication', '_send_address_claimed')
            ev = Ev(env={'address': 'address'}, selfenv={'_name': {'bytes': 'name_bytes_v'}}, consts=self.consts, ctors=self.ctors)
            k, v = ev.run(f.body)
            if k != 'send':
                raise Unsupported('_send_address_claimed tail')
            return 'Definition ca_address_claimed (address : Z) (name_bytes_v : list Z) : frame :=\n  %s.' % v, span_hash(s, f)
        self.item(F, 'ca_address_claimed', claimed)

        def consts():
            c = self.consts
            out = ['Definition ca_VETO : Z := %d.' % us(c['ControllerApplication.ClaimTimeout.VETO']),
                   'Definition ca_REQUEST_FOR_CLAIM : Z := %d.' % us(c['ControllerApplication.ClaimTimeout.REQUEST_FOR_CLAIM'])]
            for n in ['NONE', 'WAIT_VETO', 'NORMAL', 'CANNOT_CLAIM']:
                out.append('Definition ca_state_%s : Z := %d.' % (n, c['ControllerApplication.State.' + n]))
            return '\n'.join(out), hashlib.sha256(repr(sorted((k, v) for k, v in c.items() if k.startswith('ControllerApplication.'))).encode()).hexdigest()[:16]
        self.item(F, 'ca_consts', consts)

    # ------------------------------------------------------------------ diagnostics
    def diag(self):
        F = 'DiagGen'
        t, s = self.trees['diagnostic_messages'], self.src['diagnostic_messages']

        def dtc():
            f = find(t, 'DTC', '__init__')
            iff = [x for x in f.body if isinstance(x, ast.If)]
            if len(iff) != 1 or ast.unparse(iff[0].test) != 'dtc != None':
                raise Unsupported('DTC.__init__ shape')
            ev = Ev(env={'dtc': 'dtc'}, consts=self.consts)
            ev.run(iff[0].body)
            a = ev.selfenv
            out = ['Definition dtc_unpack (dtc : Z) : Z * Z * Z * Z :=\n  (%s, %s, %s, %s).' % (a['_spn'], a['_fmi'], a['_oc'], a['_cm'])]
            ev = Ev(env={'spn': 'spn', 'fmi': 'fmi', 'oc': 'oc'}, consts=self.consts)
            ev.run(iff[0].orelse)
            b = ev.selfenv
            if (b['_spn'], b['_fmi'], b['_oc'], b['_cm']) != ('spn', 'fmi', 'oc', '0'):
                raise Unsupported('DTC field-ctor stores')
            out.append('Definition dtc_pack (spn fmi oc : Z) : Z :=\n  %s.' % b['_dtc'])
            return '\n'.join(out), span_hash(s, f)
        self.item(F, 'dtc', dtc)

        def dtc_bytes():
            f = find(t, 'Dm1', '_send')
            apps = []
            for x in ast.walk(f):
                if isinstance(x, ast.Expr) and isinstance(x.value, ast.Call) and ast.unparse(x.value.func) == 'self._data.append':
                    apps.append(x.value.args[0])
            if len(apps) != 4:
                raise Unsupported('Dm1._send appends')
            ev = Ev(env={'dtc': 'dtc'}, consts=self.consts)
            return 'Definition dm1_dtc_bytes (dtc : Z) : list Z :=\n  [%s].' % '; '.join(ev.scalar(a) for a in apps), span_hash(s, f)
        self.item(F, 'dm1_dtc_bytes', dtc_bytes)

        def dtc_join():
            f = find(t, 'Dm1', '_parse_dm1_receive_data')
            loops = [x for x in f.body if isinstance(x, ast.For)]
            if len(loops) != 1 or ast.unparse(loops[0].iter) != 'range(number_dtc)':
                raise Unsupported('_parse_dm1_receive_data loop')
            asg = loops[0].body[0]
            # substitute self._data[i*4+k] -> bk
            class Sub(ast.NodeTransformer):
                def visit_Subscript(self_, n):
                    u = ast.unparse(n)
                    for k in (2, 3, 4, 5):
                        if u == 'self._data[i * 4 + %d]' % k:
                            return ast.Name(id='b%d' % (k - 2), ctx=ast.Load())
                    return n
            val = Sub().visit(asg.value)
            ev = Ev(env={'b0': 'b0', 'b1': 'b1', 'b2': 'b2', 'b3': 'b3'}, consts=self.consts)
            v = ev.scalar(val)
            # lamp extraction
            lamps = {}
            for x in f.body:
                if isinstance(x, ast.Assign) and ast.unparse(x.targets[0]).startswith("self._lamp_status["):
                    key = x.targets[0].slice.value
                    call = x.value
                    ev2 = Ev(selfenv={'_data': 'data'}, consts=self.consts)
                    lamps[key] = (ev2.scalar(call.args[0]), ev2.scalar(call.args[1]))
            if sorted(lamps) != ['awl', 'mil', 'pl', 'rsl']:
                raise Unsupported('lamp extraction keys')
            out = ['Definition dm1_dtc_join (b0 b1 b2 b3 : Z) : Z :=\n  %s.' % v,
                   'Definition dm1_lamp_fields (data : list Z) : list (Z * Z) :=\n  [%s].' % '; '.join('(%s, %s)' % lamps[k] for k in ['pl', 'awl', 'rsl', 'mil'])]
            return '\n'.join(out), span_hash(s, f)
        self.item(F, 'dm1_dtc_join', dtc_join)

        def lamps():
            c = t
            lut = None
            keys = None
            for cls in ast.walk(c):
                if isinstance(cls, ast.ClassDef) and cls.name == 'DtcLamp':
                    env = {}
                    for x in cls.body:
                        if isinstance(x, ast.Assign) and isinstance(x.targets[0], ast.Name):
                            try:
                                env[x.targets[0].id] = eval(compile(ast.Expression(x.value), '<c>', 'eval'), {'__builtins__': {}}, dict(env))
                            except Exception:
                                pass
                    lut, keys = env.get('_DATA_LUT'), env.get('_KEYS')
                    cenv = env
                    node = cls
            if not lut or keys != ['pl', 'awl', 'rsl', 'mil']:
                raise Unsupported('DtcLamp tables')
            out = ['Definition lamp_lut (st : Z) : option (Z * Z) :=\n  ' +
                   ' '.join('if st =? %d then Some (%d, %d) else' % (k, v[0], v[1]) for k, v in sorted(lut.items())) + ' None.']
            # get_status: nested if/elif on lamp, flash with constant results
            f = find(c, 'DtcLamp', 'get_status')
            def conv(stmts, default):
                # returns coq expr for final value of `status`
                cur = default
                for st in stmts:
                    if isinstance(st, ast.Assign) and ast.unparse(st.targets[0]) == 'status':
                        nm_ = ast.unparse(st.value)
                        if not nm_.startswith('self.'):
                            raise Unsupported('get_status value')
                        cur = str(cenv[nm_[5:]])
                    elif isinstance(st, ast.If):
                        tst = st.test
                        if not (isinstance(tst, ast.Compare) and isinstance(tst.ops[0], ast.Eq) and isinstance(tst.left, ast.Name) and tst.left.id in ('lamp', 'flash')):
                            raise Unsupported('get_status test')
                        cur = '(if %s =? %d then %s else %s)' % (tst.left.id, const_eval(tst.comparators[0]), conv(st.body, cur), conv(st.orelse, cur))
                    elif isinstance(st, ast.Return):
                        if ast.unparse(st.value) != 'status':
                            raise Unsupported('get_status return')
                    else:
                        raise Unsupported('get_status stmt')
                return cur
            out.append('Definition lamp_get_status (lamp flash : Z) : Z :=\n  %s.' % conv(f.body, '0'))
            # get_data: check loop shape, then emit the fold
            g = find(c, 'DtcLamp', 'get_data')
            gsrc = ast.unparse(g)
            need = ["data = [0] * 2", "for idx, lamp_key in enumerate(self._KEYS):", "lamp, flash = self._DATA_LUT[status_dic[lamp_key]]",
                    "data[0] |= lamp << idx * 2", "data[1] |= flash << idx * 2", "return data"]
            for nd in need:
                if nd not in gsrc:
                    raise Unsupported('get_data shape: ' + nd)
            out.append('(* get_data: unknown / missing statuses are replaced by OFF (%d) *)' % cenv['OFF'])
            out.append('Definition lamp_norm (st : Z) : Z := match lamp_lut st with Some _ => st | None => %d end.' % cenv['OFF'])
            out.append('Definition lamp_get_data (pl awl rsl mil : Z) : list Z :=\n'
                       '  let f := fun st => match lamp_lut (lamp_norm st) with Some p => p | None => (0, 0) end in\n'
                       '  [Z.lor (Z.lor (Z.lor (Z.lor 0 (Z.shiftl (fst (f pl)) 0)) (Z.shiftl (fst (f awl)) 2)) (Z.shiftl (fst (f rsl)) 4)) (Z.shiftl (fst (f mil)) 6);\n'
                       '   Z.lor (Z.lor (Z.lor (Z.lor 0 (Z.shiftl (snd (f pl)) 0)) (Z.shiftl (snd (f awl)) 2)) (Z.shiftl (snd (f rsl)) 4)) (Z.shiftl (snd (f mil)) 6)].')
            return '\n'.join(out), span_hash(s, node)
        self.item(F, 'lamps', lamps)

        def dm22():
            f = find(t, 'Dm22', '_send_request')
            ev = Ev(env={'control_byte': 'control_byte', 'dest_address': 'dest_address', 'fmi': 'fmi', 'spn': 'spn'}, consts=self.consts)
            # data = [0xFF]*8
            first = [x for x in f.body if isinstance(x, ast.Assign)][0]
            if ast.unparse(first) != 'data = [255] * 8':
                raise Unsupported('Dm22 data init')
            ev.env['data'] = SymList(['255'] * 8)
            rest = [x for x in f.body if isinstance(x, ast.Assign)][1:]
            ev.run(rest)
            call = f.body[-1]
            if not (isinstance(call, ast.Expr) and isinstance(call.value, ast.Call) and ev.dotted(call.value.func) == 'self._ca.send_pgn'):
                raise Unsupported('Dm22 tail')
            ev.selfenv['_pgn'] = str(self.consts['ParameterGroupNumber.PGN.DM22'])
            a = call.value.args
            out = ['Definition dm22_payload (control_byte fmi spn : Z) : list Z :=\n  %s.' % ev.env['data'].coq(),
                   'Definition dm22_args (dest_address : Z) : Z * Z * Z * Z :=\n  (%s, %s, %s, %s).' % tuple(ev.scalar(x) for x in a[:4])]
            return '\n'.join(out), span_hash(s, f)
        self.item(F, 'dm22', dm22)

    # ------------------------------------------------------------------
    def run_all(self):
        self.codec()
        self.tp21()
        self.ca()
        self.diag()
        for extra in ('tp22', 'dm14', 'skel', 'flow', 'order'):
            if hasattr(self, extra + '_items'):
                getattr(self, extra + '_items')()


PRELUDE = {
    'Codec': '''(* GENERATED by tools/py2coq.py from /repo/j1939 — do not edit *)
From J1939 Require Import Base.
''',
    'Tp21Gen': '''(* GENERATED by tools/py2coq.py from /repo/j1939 — do not edit *)
From J1939 Require Import Base.
From J1939.gen Require Import Codec.
From J1939 Require Import CodecGlue.
''',
    'CaGen': '''(* GENERATED by tools/py2coq.py from /repo/j1939 — do not edit *)
From J1939 Require Import Base.
From J1939.gen Require Import Codec.
From J1939 Require Import CodecGlue.
''',
    'DiagGen': '''(* GENERATED by tools/py2coq.py from /repo/j1939 — do not edit *)
From J1939 Require Import Base.
''',
    'Tp22Gen': '''(* GENERATED by tools/py2coq.py from /repo/j1939 — do not edit *)
From J1939 Require Import Base.
From J1939.gen Require Import Codec.
From J1939 Require Import CodecGlue.
''',
    'Dm14Gen': '''(* GENERATED by tools/py2coq.py from /repo/j1939 — do not edit *)
From J1939 Require Import Base.
Definition le_bytes4 (v : Z) : list Z := [v mod 256; (v / 256) mod 256; (v / 65536) mod 256; (v / 16777216) mod 256].
''',
    'SkelGen': '''(* GENERATED by tools/py2coq.py from /repo/j1939 — do not edit *)
From J1939 Require Import Base SkelDefs FlowDefs.
''',
}


def write_if_changed(path, text):
    if os.path.exists(path) and open(path).read() == text:
        return False
    with open(path, 'w') as f:
        f.write(text)
    return True


def main():
    repo, out = sys.argv[1], sys.argv[2]
    refdir = os.path.join(os.path.dirname(os.path.abspath(__file__)), '..', 'coq', 'theories', 'ref')
    update_ref = '--update-ref' in sys.argv
    tr = Translator(repo)
    try:
        import py2coq_ext
        py2coq_ext.install(tr, sys.modules[__name__])
        py2coq_ext.install_skel(tr, sys.modules[__name__])
        py2coq_ext.install_dm14(tr, sys.modules[__name__])
    except ImportError:
        pass
    tr.run_all()
    files = {}
    report = []
    for it in tr.items:
        refp = os.path.join(refdir, it['name'] + '.def')
        if it['status'] == 'translated':
            text = it['text']
            if update_ref:
                write_if_changed(refp, text + '\n')
            same = os.path.exists(refp) and open(refp).read().strip() == text.strip()
            it['same_as_ref'] = same
        else:
            if not os.path.exists(refp):
                raise SystemExit('no reference definition for failed item ' + it['name'])
            text = '(* FALLBACK to ref/ — translation failed: %s *)\n' % it['error'].replace('*)', '* )') + open(refp).read().strip()
            it['same_as_ref'] = True
        files.setdefault(it['file'], []).append('(* item %s [%s] src-hash %s *)\n%s\n' % (it['name'], it['status'], it['hash'], text))
        report.append({k: it[k] for k in ('file', 'name', 'status', 'hash', 'error', 'same_as_ref')})
    os.makedirs(out, exist_ok=True)
    for fn, parts in files.items():
        write_if_changed(os.path.join(out, fn + '.v'), PRELUDE[fn] + '\n' + '\n'.join(parts))
    write_if_changed(os.path.join(out, 'translate_report.json'), json.dumps(report, indent=1))
    nfb = sum(1 for r in report if r['status'] != 'translated')
    print('py2coq: %d items, %d fallback' % (len(report), nfb))
    for r in report:
        if r['status'] != 'translated':
            print('  FALLBACK %s: %s' % (r['name'], r['error']))


if __name__ == '__main__':
    sys.path.insert(0, os.path.dirname(os.path.abspath(__file__)))
    main()

#!/bin/bash
# tools/confirm_seeded.sh <Cxx> — confirm every candidate /tmp/mut/<Cxx>/out/<n> in that property's own scratch worktree:
# patch applies, pinned suite still 116 passed, demo exits 1 with the change and 0 without.
id=$1; wt=/tmp/mut/$id/repo
for d in /tmp/mut/$id/${OUTDIR:-out}/*/; do
  n=$(basename $d); [ -f $d/patch.diff ] || continue
  git -C $wt checkout -q -- . ; git -C $wt clean -fdq
  if ! git -C $wt apply $d/patch.diff 2>/dev/null; then echo "$id/$n apply-failed"; continue; fi
  t=$(cd $wt && timeout 1200 /venv/bin/python -m pytest -q -p no:cacheprovider --timeout=900 2>&1 | tail -1)
  (cd $wt && PYTHONPATH=$wt timeout 120 /venv/bin/python $d/demo.py $wt >/tmp/mut/$id/${OUTDIR:-out}/$n/demo_with.txt 2>&1); e1=$?
  git -C $wt checkout -q -- . ; git -C $wt clean -fdq
  (cd $wt && PYTHONPATH=$wt timeout 120 /venv/bin/python $d/demo.py $wt >/tmp/mut/$id/${OUTDIR:-out}/$n/demo_without.txt 2>&1); e0=$?
  echo "$id/$n tests=[$t] demo_with=$e1 demo_without=$e0"
  printf '{"tests":"%s","demo_with_change_exit":%d,"demo_without_change_exit":%d}\n' "$t" $e1 $e0 > $d/confirm.json
done

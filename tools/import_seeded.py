#!/usr/bin/env python3
"""import_seeded.py <Cxx> — copy confirmed candidates /tmp/mut/<Cxx>/out/<n> to /verif/seeded/<Cxx>-<n>/"""
import sys, os, json, shutil
OUT = os.environ.get("OUTDIR", "out")
SUF = os.environ.get("IDSUFFIX", "")
for pid in sys.argv[1:]:
    base = '/tmp/mut/%s/%s' % (pid, OUT)
    for n in sorted(os.listdir(base)):
        d = os.path.join(base, n)
        if not os.path.isfile(os.path.join(d, 'confirm.json')):
            continue
        c = json.load(open(os.path.join(d, 'confirm.json')))
        ok = c['tests'].startswith('116 passed') and c['demo_with_change_exit'] == 1 and c['demo_without_change_exit'] == 0
        if not ok:
            print('NOT CONFIRMED', pid, n, c)
            continue
        dst = '/verif/seeded/%s-%s%s' % (pid, SUF, n.replace('extra_', 'x'))
        os.makedirs(dst, exist_ok=True)
        shutil.copy(os.path.join(d, 'patch.diff'), dst)
        shutil.copy(os.path.join(d, 'demo.py'), os.path.join(dst, 'demonstration.py'))
        try:
            meta = json.load(open(os.path.join(d, 'meta.json')))
        except Exception:
            meta = dict(property=pid, title='(no meta)')
        meta['confirmed'] = dict(tests=c['tests'], demonstration_exit_with_change=1, demonstration_exit_without_change=0,
                                 how='git apply in a scratch worktree of /repo; pinned suite; demonstration.py <repo>')
        meta['origin'] = 'fresh sub-agent given only the property text and its own scratch worktree'
        json.dump(meta, open(os.path.join(dst, 'meta.json'), 'w'), indent=1)
        print('imported', dst)

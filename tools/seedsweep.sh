#!/bin/bash
# tools/seedsweep.sh <from> <to> [tier] — run every check under each seed; print anything that is not clean
cd /verif
tier=${3:-quick}
mkdir -p .work/sweep
for s in $(seq $1 $2); do
  for c in C01 C02 C03 C04 C05 C06 C07 C08 C09 C10 C11 C12 C13 C14 C15 C16 C17 C18 C19; do
    echo "$s $c"
  done
done | xargs -P 12 -L 1 bash -c 'VERIF_SEED=$0 ./check $1 --tier '$tier' > .work/sweep/$1-$0.log 2>&1; r=$?; if [ $r -ne 0 ] || grep -q "VIOLATION\|KNOWN-FINDING" .work/sweep/$1-$0.log; then echo "ALARM seed=$0 $1 exit=$r"; fi'
echo sweep-done

#!/bin/bash
# tools/run_harmless.sh [ids...] — apply each behaviour-preserving rewrite of seeded-harmless/ to /repo and run EVERY check:
# all must stay silent (exit 0, no VIOLATION line).  Serial: /repo is shared.
# (VERIF_RUN_ROOT / J1939_REPO: as in run_seeded.sh, for side-by-side runs on scratch copies; results recorded under /verif)
root=${VERIF_RUN_ROOT:-/verif}; repo=${J1939_REPO:-/repo}
cd $root
ids=${@:-$(ls /verif/seeded-harmless)}
for id in $ids; do
  d=/verif/seeded-harmless/$id
  [ -f $d/patch.diff ] || continue
  if [ -n "$(git -C $repo status --porcelain)" ]; then echo "$repo not clean"; exit 2; fi
  git -C $repo apply $d/patch.diff || { echo "$id apply-failed"; continue; }
  alarms=""
  fb=""
  for c in C01 C02 C03 C04 C05 C06 C07 C08 C09 C10 C11 C12 C13 C14 C15 C16 C17 C18 C19; do
    out=$(./check $c --tier quick 2>&1); rc=$?
    if [ $rc -ne 0 ] || echo "$out" | grep -q '^VIOLATION'; then alarms="$alarms $c"; echo "$out" | grep '^VIOLATION' | head -1; fi
  done
  fb=$(/venv/bin/python -c "import json; r=json.load(open('$root/coq/theories/gen/translate_report.json')); print(','.join(x['name'] for x in r if x['status']!='translated'))")
  git -C $repo checkout -- .
  echo "$id alarms=[${alarms# }] translator-fallback=[$fb] | $(cat $d/title.txt)"
  printf '{"rewrite":"%s","alarms":"%s","translator_fallback_items":"%s"}\n' "$id" "${alarms# }" "$fb" > $d/result.json
done
[ "$repo" = /repo ] && ./check setup >/dev/null 2>&1

"""py2coq_ext — translator items for j1939_22.py (Tp22Gen.v), the DM14 payloads (Dm14Gen.v) and the shared-access
skeleton of the job passes (SkelGen.v).  Same fail-closed policy as py2coq.py."""
import ast, hashlib, json


def install(tr, M):
    Ev, Unsupported, SymList, find, span_hash, us = M.Ev, M.Unsupported, M.SymList, M.find, M.span_hash, M.us

    def tp22_items():
        F = 'Tp22Gen'
        t, s = tr.trees['j1939_22'], tr.src['j1939_22']
        cl = 'J1939_22'
        C = tr.consts

        def hashes():
            out = []
            f = find(t, cl, '_buffer_hash')
            ev = Ev(env={'session_num': 'session', 'src_address': 'sa', 'dest_address': 'da'}, consts=C)
            k, v = ev.run(f.body)
            out.append(tr.defn('tp22_hash', ['session', 'sa', 'da'], 'Z', v))
            f2 = find(t, cl, '_buffer_hash_mpg')
            ev = Ev(env={'frame_format': 'ff', 'msg_counter': 'counter', 'src_address': 'sa', 'dest_address': 'da'}, consts=C)
            k, v = ev.run(f2.body)
            out.append(tr.defn('tp22_hash_mpg', ['ff', 'counter', 'sa', 'da'], 'Z', v))
            f3 = find(t, cl, '_buffer_unhash_mpg')
            ret = [x for x in f3.body if isinstance(x, ast.Return)][0]
            ev = Ev(env={'hash': 'h'}, consts=C)
            parts = [ev.scalar(e) for e in ret.value.elts]
            out.append('Definition tp22_unhash_mpg (h : Z) : Z * Z * Z * Z :=\n  (%s).' % ', '.join(parts))
            return '\n'.join(out), span_hash(s, f) + span_hash(s, f2)[:4]
        tr.item(F, 'tp22_hashes', hashes)

        def lut():
            f = find(t, cl, '__init__')
            lst = None
            for st in f.body:
                if isinstance(st, ast.Assign) and ast.unparse(st.targets[0]) == 'self._LUT_FD_DLC':
                    if ast.unparse(st.value) != '[]':
                        raise Unsupported('LUT init')
                    lst = []
                elif isinstance(st, ast.For) and lst is not None and 'self._LUT_FD_DLC.append' in ast.unparse(st):
                    it = st.iter
                    if not (isinstance(it, ast.Call) and ast.unparse(it.func) == 'range' and len(it.args) == 1):
                        raise Unsupported('LUT loop range')
                    n = M.const_eval(it.args[0])
                    if len(st.body) != 1:
                        raise Unsupported('LUT loop body')
                    call = st.body[0].value
                    arg = call.args[0]
                    var = st.target.id
                    for i in range(n):
                        if isinstance(arg, ast.Name) and arg.id == var:
                            lst.append(i)
                        else:
                            c = M.const_eval(arg)
                            if not isinstance(c, int):
                                raise Unsupported('LUT value')
                            lst.append(c)
            if not lst:
                raise Unsupported('LUT not found')
            return 'Definition fd_dlc_lut : list Z :=\n  [%s].' % '; '.join(str(x) for x in lst), hashlib.sha256(repr(lst).encode()).hexdigest()[:16]
        tr.item(F, 'fd_dlc_lut', lut)

        def cm_builder():
            f = find(t, cl, '__send_tp_cm')
            params = [a.arg for a in f.args.args[1:]]
            if params != ['src_address', 'dest_address', 'TpControlType', 'session_num', 'message_size', 'num_segments', 'byte_7', 'byte_8', 'pgn', 'priority']:
                raise Unsupported('__send_tp_cm params %s' % params)
            ev = Ev(env={p: p for p in params}, consts=C, ctors=tr.ctors)
            ev.env['TpControlType'] = 'ctl'
            body = []
            for st in f.body:
                if isinstance(st, ast.Assign) and ast.unparse(st) == 'data = [0] * 12':
                    ev.env['data'] = SymList(['0'] * 12)
                else:
                    body.append(st)
            k, v = ev.run(body)
            if k != 'send':
                raise Unsupported('__send_tp_cm tail')
            sig = ' (src_address dest_address ctl session_num message_size num_segments byte_7 byte_8 pgn priority : Z)'
            out = ['Definition tp22_cm%s : frame :=\n  %s.' % (sig, v)]
            # wrappers
            wr = {'__send_tp_abort': ('tp22_abort', ['src_address', 'dest_address', 'session_num', 'reason', 'pgn_value']),
                  '__send_tp_rts': ('tp22_rts', ['priority', 'src_address', 'dest_address', 'session_num', 'pgn_value', 'message_size', 'num_segments', 'max_cmdt_packets']),
                  '__send_tp_cts': ('tp22_cts', ['src_address', 'dest_address', 'session_num', 'num_segments_that_can_be_sent', 'next_packet', 'pgn_value']),
                  '__send_tp_eom_status': ('tp22_eom_status', ['src_address', 'dest_address', 'session_num', 'message_size', 'num_segments', 'pgn_value']),
                  '__send_tp_eom_ack': ('tp22_eom_ack', ['src_address', 'dest_address', 'session_num', 'message_size', 'num_segments', 'pgn_value']),
                  '__send_tp_bam': ('tp22_bam', ['priority', 'src_address', 'session_num', 'pgn_value', 'message_size', 'num_segments'])}
            for py, (cn, ps) in wr.items():
                g = find(t, cl, py)
                got = [a.arg for a in g.args.args[1:]]
                if got[:len(ps)] != ps:
                    raise Unsupported('%s params %s' % (py, got))
                env = {p: p for p in ps}
                # defaulted parameters
                defaults = g.args.defaults
                for a, d in zip(g.args.args[len(g.args.args) - len(defaults):], defaults):
                    ev0 = Ev(consts=C)
                    env[a.arg] = ev0.scalar(d)
                ev2 = Ev(env=env, consts=C)
                stmts = [x for x in g.body if not (isinstance(x, ast.Expr) and isinstance(x.value, ast.Constant))]
                for x in stmts[:-1]:
                    ev2.run([x])
                call = stmts[-1]
                if not (isinstance(call, ast.Expr) and isinstance(call.value, ast.Call) and ev2.dotted(call.value.func) == 'self.__send_tp_cm'):
                    raise Unsupported('%s tail' % py)
                args = [ev2.scalar(a) for a in call.value.args]
                if len(args) == 9:
                    args.append('7')
                if len(args) != 10:
                    raise Unsupported('%s arg count' % py)
                out.append('Definition %s (%s : Z) : frame :=\n  tp22_cm %s.' % (cn, ' '.join(ps), ' '.join(args)))
            return '\n'.join(out), span_hash(s, f)
        tr.item(F, 'tp22_cm', cm_builder)

        def dt_parts():
            f = find(t, cl, '__send_tp_dt')
            params = [a.arg for a in f.args.args[1:]]
            if params != ['src_address', 'dest_address', 'session_num', 'segment_num', 'data', 'Dtfi']:
                raise Unsupported('__send_tp_dt params')
            ev = Ev(env={'src_address': 'src_address', 'dest_address': 'dest_address', 'session_num': 'session_num', 'segment_num': 'segment_num', 'Dtfi': 'dtfi'}, consts=C, ctors=tr.ctors)
            hdr = {}
            for st in f.body:
                if isinstance(st, ast.Assign) and isinstance(st.targets[0], ast.Name) and st.targets[0].id in ('pgn', 'mid'):
                    ev.run([st])
                if isinstance(st, ast.Expr) and isinstance(st.value, ast.Call) and ast.unparse(st.value.func) == 'data.insert':
                    idx = M.const_eval(st.value.args[0])
                    hdr[idx] = ev.scalar(st.value.args[1])
            if sorted(hdr) != [0, 1, 2, 3]:
                raise Unsupported('dt header inserts')
            src = ast.unparse(f)
            for need in ["if len(data) >= self.DataLength.TP + 4:", "data = data[:self.DataLength.TP + 4]", "next_valid_fd_length = self._LUT_FD_DLC[len(data)]",
                         "while len(data) < next_valid_fd_length:", "data.append(255)", "self.__send_message(mid.can_id, True, data, fd_format=True)"]:
                if need not in src:
                    raise Unsupported('dt shape: ' + need)
            mid = ev.env['mid']
            out = ['Definition tp22_dt_header (session_num segment_num dtfi : Z) : list Z :=\n  [%s].' % '; '.join(hdr[i] for i in range(4)),
                   'Definition tp22_dt_id (src_address dest_address : Z) : Z :=\n  %s.' % mid['can_id'],
                   '(* __send_tp_dt shape checked: header inserted in front, cut to TP+4 or padded with 255 up to _LUT_FD_DLC[len] *)',
                   'Definition tp22_dt_pad : Z := 255.']
            return '\n'.join(out), span_hash(s, f)
        tr.item(F, 'tp22_dt', dt_parts)

        def mpg_parts():
            f = find(t, cl, '__send_multi_pg')
            loop = [x for x in f.body if isinstance(x, ast.For)][0]
            if ast.unparse(loop.iter) != 'cpg_list':
                raise Unsupported('multi-pg loop')
            apps = []
            ev = Ev(env={'cpg': {'tos': 'tos', 'tf': 'tf', 'cpgn': 'cpgn', 'data_length': 'data_length', 'priority': 'cprio'}}, consts=C)
            # cpg['x'] subscripts -> names
            class Sub(ast.NodeTransformer):
                def visit_Subscript(self_, n):
                    if isinstance(n.value, ast.Name) and n.value.id == 'cpg' and isinstance(n.slice, ast.Constant):
                        return ast.Name(id='CPG_' + n.slice.value, ctx=ast.Load())
                    return self_.generic_visit(n)
            ev.env.update({'CPG_tos': 'tos', 'CPG_tf': 'tf', 'CPG_cpgn': 'cpgn', 'CPG_data_length': 'data_length', 'CPG_priority': 'cprio'})
            for st in loop.body:
                import copy
                st = Sub().visit(copy.deepcopy(st))
                u = ast.unparse(st)
                if u.startswith('data.append('):
                    apps.append(ev.scalar(st.value.args[0]))
            if len(apps) != 4:
                raise Unsupported('multi-pg header appends')
            src = ast.unparse(f)
            for need in ["priority = min(cpg['priority'], priority)", "data.extend(", "next_valid_fd_length = self._LUT_FD_DLC[len(data)]", "if padding_cnt < 3:", "data.append(0)", "data.append(170)",
                         "self.__send_message(src_address, False, data, fd_format=True)"]:
                if need not in src:
                    raise Unsupported('multi-pg shape: ' + need)
            # FEFF identifier
            mids = [x for x in ast.walk(f) if isinstance(x, ast.Assign) and isinstance(x.targets[0], ast.Name) and x.targets[0].id == 'mid']
            ev2 = Ev(env={'priority': 'priority', 'dst_address': 'dst_address', 'src_address': 'src_address'}, consts=C, ctors=tr.ctors)
            ev2.run([mids[0]])
            out = ['Definition mpg_header (tos tf cpgn data_length : Z) : list Z :=\n  [%s].' % '; '.join(apps),
                   'Definition mpg_feff_id (priority dst_address src_address : Z) : Z :=\n  %s.' % ev2.env['mid']['can_id'],
                   '(* __send_multi_pg shape checked: min priority, header+data per group, pad to _LUT_FD_DLC[len] with 3 x 0 then 0xAA, FBFF id = src_address (11-bit) *)']
            # parser
            g = find(t, cl, '_process_multi_pg')
            wl = [x for x in g.body if isinstance(x, ast.While)][0]
            ev3 = Ev(env={'data': 'data'}, consts=C)
            got = {}
            for st in wl.body:
                if isinstance(st, ast.Assign) and isinstance(st.targets[0], ast.Name) and st.targets[0].id in ('tos', 'trailer_format', 'cpgn', 'payload_length'):
                    got[st.targets[0].id] = ev3.scalar(st.value)
            if sorted(got) != ['cpgn', 'payload_length', 'tos', 'trailer_format']:
                raise Unsupported('multi-pg parser fields')
            out.append('Definition mpg_parse_header (data : list Z) : Z * Z * Z * Z :=\n  (%s, %s, %s, %s).' % (got['tos'], got['trailer_format'], got['cpgn'], got['payload_length']))
            # the cpg dict built by send_pgn
            sp = find(t, cl, 'send_pgn')
            cp = [x for x in ast.walk(sp) if isinstance(x, ast.Assign) and isinstance(x.targets[0], ast.Name) and x.targets[0].id == 'cpg'][0]
            d = cp.value
            ev4 = Ev(env={'priority': 'priority', 'tos': 'tos', 'trailer_format': 'trailer_format', 'cpgn': 'cpgn', 'data_length': 'data_length'}, consts=C)
            fields = {k.value: v for k, v in zip(d.keys, d.values)}
            out.append('Definition mpg_cpg_fields (priority tos trailer_format cpgn : Z) : Z * Z * Z * Z :=\n  (%s, %s, %s, %s).' % (
                ev4.scalar(fields['priority']), ev4.scalar(fields['tos']), ev4.scalar(fields['tf']), ev4.scalar(fields['cpgn'])))
            return '\n'.join(out), span_hash(s, f) + span_hash(s, g)[:4]
        tr.item(F, 'mpg', mpg_parts)

        def fields22():
            out = []
            f = find(t, cl, '_process_tp_cm')
            ev = Ev(env={'data': 'data'}, consts=C)
            want = ['control_byte', 'session_num', 'message_size', 'segment_num', 'pgn']
            got = {}
            for st in f.body:
                if isinstance(st, ast.Assign) and isinstance(st.targets[0], ast.Name) and st.targets[0].id in want:
                    got[st.targets[0].id] = ev.scalar(st.value)
            if sorted(got) != sorted(want):
                raise Unsupported('tp_cm fields %s' % sorted(got))
            for k in want:
                out.append('Definition tp22_cm_%s (data : list Z) : Z :=\n  %s.' % (k, got[k]))
            g = find(t, cl, '_process_tp_dt')
            want2 = ['dtfi', 'session_num', 'segment_num']
            got2 = {}
            for st in g.body:
                if isinstance(st, ast.Assign) and isinstance(st.targets[0], ast.Name) and st.targets[0].id in want2:
                    got2[st.targets[0].id] = ev.scalar(st.value)
            if sorted(got2) != sorted(want2):
                raise Unsupported('tp_dt fields')
            for k in want2:
                out.append('Definition tp22_dt_%s (data : list Z) : Z :=\n  %s.' % (k, got2[k]))
            return '\n'.join(out), span_hash(s, f)[:8] + span_hash(s, g)[:8]
        tr.item(F, 'tp22_fields', fields22)

        def consts22():
            out = []
            for n in ['Tr', 'Th', 'T1', 'T2', 'T3', 'T4', 'T5']:
                out.append('Definition tp22_%s : Z := %d.' % (n, us(C['J1939_22.Timeout.' + n])))
            for n in ['RTS', 'CTS', 'EOM_STATUS', 'EOM_ACK', 'BAM', 'ABORT']:
                out.append('Definition tp22_ctl_%s : Z := %d.' % (n, C['J1939_22.TpControlType.' + n]))
            for n in ['WAITING_CTS', 'SENDING_RTS_CTS', 'SENDING_BAM', 'SENDING_EOM_STATUS', 'WAITING_EOM_ACK', 'EOM_ACK_RECEIVED', 'TRANSMISSION_FINISHED']:
                out.append('Definition tp22_st_%s : Z := %d.' % (n, C['J1939_22.SendBufferState.' + n]))
            for n in ['BUSY', 'RESOURCES', 'TIMEOUT']:
                out.append('Definition tp22_reason_%s : Z := %d.' % (n, C['J1939_22.ConnectionAbortReason.' + n]))
            out.append('Definition tp22_TP : Z := %d.' % C['J1939_22.DataLength.TP'])
            # default BAM interval: the literal in __init__
            f = find(t, cl, '__init__')
            lit = None
            for x in ast.walk(f):
                if isinstance(x, ast.Assign) and ast.unparse(x.targets[0]) == 'self._minimum_tp_bam_dt_interval' and isinstance(x.value, ast.Constant):
                    lit = x.value.value
            if lit is None:
                raise Unsupported('default bam interval')
            out.append('Definition tp22_bam_default : Z := %d.' % us(lit))
            # pool sizes
            src = ast.unparse(f)
            if 'self.__bam_session_list = [True] * 4' not in src or 'self.__rts_cts_session_list = [True] * 8' not in src:
                raise Unsupported('pool sizes')
            out.append('Definition tp22_pool_bam : nat := 4.\nDefinition tp22_pool_rts : nat := 8.')
            for n in ['FBFF', 'FEFF']:
                out.append('Definition ff_%s : Z := %d.' % (n, C['FrameFormat.' + n]))
            h = hashlib.sha256(json.dumps({k: v for k, v in C.items() if k.startswith('J1939_22.')}, sort_keys=True).encode()).hexdigest()[:16]
            return '\n'.join(out), h
        tr.item(F, 'tp22_consts', consts22)

    tr.tp22_items = tp22_items


def install_skel(tr, M):
    Unsupported, find = M.Unsupported, M.find
    import hashlib
    TBL = {'_rcv_buffer': 'T_RCV', '_snd_buffer': 'T_SND', '_multi_pg_snd_buffer': 'T_MPG'}

    def shared(n):
        if isinstance(n, ast.Attribute) and isinstance(n.value, ast.Name) and n.value.id == 'self' and n.attr in TBL:
            return n.attr
        return None

    def seq(items):
        if not items:
            return 'SSkip'
        if len(items) == 1:
            return items[0]
        return '(SSeq2 %s %s)' % (items[0], seq(items[1:]))

    def alt(items):
        if len(items) == 1:
            return items[0]
        return '(SAlt %s %s)' % (items[0], alt(items[1:]))

    def skel_of_loop(loop, table, keyvar, in_try=False):
        """tree of the accesses to self.<table>[keyvar] in the statements of the loop body"""
        def expr_accs(e, tr_):
            out = []
            for x in ast.walk(e):
                if isinstance(x, ast.Subscript) and shared(x.value) == table:
                    if not (isinstance(x.slice, ast.Name) and x.slice.id == keyvar):
                        raise Unsupported('access to %s with another key: %s' % (table, ast.unparse(x)))
                    if isinstance(x.ctx, ast.Load):
                        out.append('(SAcc KLookup %s)' % ('true' if tr_ else 'false'))
                    elif isinstance(x.ctx, ast.Del):
                        out.append('(SAcc KDel %s)' % ('true' if tr_ else 'false'))
                    else:
                        raise Unsupported('store into %s inside the job pass' % table)
                if isinstance(x, ast.Call) and isinstance(x.func, ast.Attribute) and shared(x.func.value) == table:
                    if not (x.args and isinstance(x.args[0], ast.Name) and x.args[0].id == keyvar):
                        raise Unsupported('method call on %s with another key' % table)
                    if x.func.attr == 'get':
                        out.append('GET')
                    elif x.func.attr == 'pop' and len(x.args) == 2:
                        out.append('(SAcc KPop %s)' % ('true' if tr_ else 'false'))
                    else:
                        raise Unsupported('call %s on %s' % (x.func.attr, table))
                if isinstance(x, ast.Subscript) and shared(x.value) and shared(x.value) != table:
                    raise Unsupported('access to another shared table inside the loop over %s' % table)
            return out

        def stmts(body, tr_):
            out = []
            i = 0
            while i < len(body):
                st = body[i]
                if isinstance(st, ast.If):
                    alts = []
                    cur = st
                    pre = expr_accs(cur.test, tr_)
                    while True:
                        alts.append(seq(stmts(cur.body, tr_)))
                        if len(cur.orelse) == 1 and isinstance(cur.orelse[0], ast.If):
                            cur = cur.orelse[0]
                            pre += expr_accs(cur.test, tr_)
                        else:
                            alts.append(seq(stmts(cur.orelse, tr_)))
                            break
                    out += pre
                    out.append(alt(alts))
                elif isinstance(st, ast.While):
                    out += expr_accs(st.test, tr_)
                    out.append('(SLoop %s)' % seq(stmts(st.body, tr_)))
                elif isinstance(st, ast.Try):
                    catches = any(h.type is None or 'KeyError' in ast.unparse(h.type) or ast.unparse(h.type) in ('Exception', 'LookupError') for h in st.handlers)
                    out += stmts(st.body, tr_ or catches)
                    for h in st.handlers:
                        out += stmts(h.body, tr_)
                elif isinstance(st, ast.For):
                    raise Unsupported('nested for loop in the job pass')
                else:
                    acc = expr_accs(st, tr_)
                    if 'GET' in acc:
                        # buf = self.X.get(key) must be followed by `if buf is None: continue`
                        if not (isinstance(st, ast.Assign) and isinstance(st.targets[0], ast.Name) and i + 1 < len(body)):
                            raise Unsupported('.get() result not bound')
                        var = st.targets[0].id
                        nxt = body[i + 1]
                        ok = isinstance(nxt, ast.If) and ast.unparse(nxt.test) == '%s is None' % var and len(nxt.body) >= 1 and isinstance(nxt.body[-1], ast.Continue) and not nxt.orelse
                        if not ok:
                            raise Unsupported('.get() not followed by `if %s is None: continue`' % var)
                        acc = ['(SAcc KGet false)' if a == 'GET' else a for a in acc]
                        i += 1
                    out += acc
                i += 1
            return out
        return seq(stmts(loop.body, in_try))

    def skel_items():
        F = 'SkelGen'
        for cls, mod, suffix in [('J1939_21', 'j1939_21', '21'), ('J1939_22', 'j1939_22', '22')]:
            def mk(cls=cls, mod=mod, suffix=suffix):
                t, s = tr.trees[mod], tr.src[mod]
                f = find(t, cls, 'async_job_thread')
                loops = []
                for st in f.body:
                    if isinstance(st, ast.For):
                        it = st.iter
                        if not (isinstance(it, ast.Call) and isinstance(it.func, ast.Name) and it.func.id == 'list' and shared(it.args[0])):
                            if any(shared(x) for x in ast.walk(it)):
                                raise Unsupported('job pass iterates a shared table without a snapshot')
                            continue
                        table = shared(it.args[0])
                        if not isinstance(st.target, ast.Name):
                            raise Unsupported('loop target')
                        loops.append('{| jl_table := %s; jl_body := %s |}' % (TBL[table], skel_of_loop(st, table, st.target.id)))
                    else:
                        for x in ast.walk(st):
                            if shared(x):
                                raise Unsupported('shared table accessed outside the snapshot loops')
                # rely: tables that OTHER methods delete from
                rely = {v: False for v in TBL.values()}
                clsnode = [c for c in ast.walk(t) if isinstance(c, ast.ClassDef) and c.name == cls][0]
                for g in clsnode.body:
                    if isinstance(g, ast.FunctionDef) and g.name not in ('async_job_thread', '__init__'):
                        for x in ast.walk(g):
                            if isinstance(x, ast.Delete):
                                for tg in x.targets:
                                    if isinstance(tg, ast.Subscript) and shared(tg.value):
                                        rely[TBL[shared(tg.value)]] = True
                            if isinstance(x, ast.Call) and isinstance(x.func, ast.Attribute) and x.func.attr in ('pop', 'clear', 'popitem') and shared(x.func.value):
                                rely[TBL[shared(x.func.value)]] = True
                            if isinstance(x, ast.Assign):
                                for tg in x.targets:
                                    if shared(tg):
                                        rely[TBL[shared(tg)]] = True      # whole table replaced
                out = ['Definition skel_%s : list jloop :=\n  [%s].' % (suffix, ';\n   '.join(loops)),
                       'Definition rely_%s (t : Z) : bool :=\n  %s.' % (suffix, ' || '.join('(t =? %s)' % k for k, v in rely.items() if v) or 'false')]
                return '\n'.join(out), M.span_hash(s, f)
            tr.item(F, 'skel_' + suffix, mk)
    # ---------------------------------------------------------------- pool flow of J1939_22.send_pgn (C10/C02)
    def flow_of(fn, loop_table=None):
        """fn: a FunctionDef (whole body) or, with loop_table, the For loop over list(self.<loop_table>) of the job pass: there a
        removal of the session from the table plays the part of taking a number (it must be followed by a put on the same
        path) and continue/break/falling off the end of the body leave the iteration"""
        GETS = ('__get_bam_session', '__get_rts_cts_session')
        PUTS = ('__put_bam_session', '__put_rts_cts_session', '__put_session')

        def selfcall(x, names):
            return (isinstance(x, ast.Call) and isinstance(x.func, ast.Attribute) and isinstance(x.func.value, ast.Name)
                    and x.func.value.id == 'self' and x.func.attr in names)

        def removal(x):
            if loop_table is None:
                return False
            if isinstance(x, ast.Delete):
                return any(isinstance(tg, ast.Subscript) and shared(tg.value) == loop_table for tg in x.targets)
            return (isinstance(x, ast.Call) and isinstance(x.func, ast.Attribute) and x.func.attr in ('pop', 'popitem', 'clear')
                    and shared(x.func.value) == loop_table)

        def mentions(node):
            for x in ast.walk(node):
                if isinstance(x, (ast.Return, ast.Raise)) or selfcall(x, GETS) or selfcall(x, PUTS) or removal(x):
                    return True
                if loop_table is not None and isinstance(x, (ast.Continue, ast.Break)) and x is not node:
                    pass
                if isinstance(x, ast.Subscript) and isinstance(x.ctx, ast.Store) and shared(x.value) == '_snd_buffer':
                    return True
            return False

        def fseq(items):
            items = [i for i in items if i != 'FSkip']
            if not items:
                return 'FSkip'
            if len(items) == 1:
                return items[0]
            return '(FSeq %s %s)' % (items[0], fseq(items[1:]))

        def stmts(body):
            out = []
            i = 0
            while i < len(body):
                st = body[i]
                if isinstance(st, ast.Assign) and selfcall(st.value, GETS):
                    if not (len(st.targets) == 1 and isinstance(st.targets[0], ast.Name) and i + 1 < len(body)):
                        raise Unsupported('session number not bound to a name')
                    var = st.targets[0].id
                    nxt = body[i + 1]
                    if not (isinstance(nxt, ast.If) and ast.unparse(nxt.test) in ('%s == None' % var, '%s is None' % var) and not nxt.orelse):
                        raise Unsupported('__get_*_session() not followed by `if %s == None:`' % var)
                    out.append('(FGet %s)' % fseq(stmts(nxt.body)))
                    i += 2
                    continue
                if isinstance(st, ast.If):
                    if any(selfcall(x, GETS) for x in ast.walk(st.test)):
                        raise Unsupported('__get_*_session() inside a condition')
                    out.append('(FAlt %s %s)' % (fseq(stmts(st.body)), fseq(stmts(st.orelse))))
                elif isinstance(st, (ast.While, ast.For, ast.Try, ast.With)):
                    if mentions(st):
                        raise Unsupported('pool operation, session store, return or raise inside a loop/try/with of send_pgn')
                    out.append('FSkip')
                elif isinstance(st, ast.Return):
                    out.append('FRet')
                elif isinstance(st, ast.Raise):
                    out.append('FRaise')
                elif loop_table is not None and isinstance(st, (ast.Continue, ast.Break)):
                    out.append('FRet')
                elif loop_table is not None and any(removal(x) for x in ast.walk(st)):
                    if any(selfcall(x, PUTS) for x in ast.walk(st)):
                        raise Unsupported('removal and put in one statement')
                    out.append('(FGet FRet)')
                else:
                    if any(selfcall(x, GETS) for x in ast.walk(st)):
                        raise Unsupported('__get_*_session() in an unexpected position: ' + ast.unparse(st)[:60])
                    if any(selfcall(x, PUTS) for x in ast.walk(st)):
                        out.append('FPut')
                    elif any(isinstance(x, ast.Subscript) and isinstance(x.ctx, ast.Store) and shared(x.value) == '_snd_buffer' for x in ast.walk(st)):
                        out.append('FStore')
                    else:
                        out.append('FSkip')
                i += 1
            return out
        return fseq(stmts(fn.body))

    def flow_items():
        def mk():
            t, s = tr.trees['j1939_22'], tr.src['j1939_22']
            f = find(t, 'J1939_22', 'send_pgn')
            return 'Definition flow_send22 : fl :=\n  %s.' % flow_of(f), M.span_hash(s, f)
        tr.item('SkelGen', 'flow_send22', mk)

        def mkjob():
            t, s = tr.trees['j1939_22'], tr.src['j1939_22']
            f = find(t, 'J1939_22', 'async_job_thread')
            loops = [st for st in f.body if isinstance(st, ast.For) and isinstance(st.iter, ast.Call) and getattr(st.iter.func, 'id', None) == 'list'
                     and st.iter.args and shared(st.iter.args[0]) == '_snd_buffer']
            if len(loops) != 1:
                raise Unsupported('expected exactly one loop over list(self._snd_buffer) in async_job_thread')
            # outside that loop the job pass must not remove originator sessions nor touch the pools
            for st in f.body:
                if st is loops[0]:
                    continue
                for x in ast.walk(st):
                    if isinstance(x, ast.Delete) and any(isinstance(tg, ast.Subscript) and shared(tg.value) == '_snd_buffer' for tg in x.targets):
                        raise Unsupported('originator session removed outside the loop over the send table')
                    if isinstance(x, ast.Call) and isinstance(x.func, ast.Attribute) and x.func.attr.startswith(('__put_', '__get_')):
                        raise Unsupported('pool operation outside the loop over the send table')
            body = ast.FunctionDef(name='_', args=None, body=loops[0].body, decorator_list=[])
            return 'Definition flow_job22 : fl :=\n  (FSeq %s FRet).' % flow_of(body, loop_table='_snd_buffer'), M.span_hash(s, f)
        tr.item('SkelGen', 'flow_job22', mkjob)
    # ---------------------------------------------------------------- "state before send" orderings (C08/C04/C13)
    def order_of(body, is_send, is_commit):
        """skeleton in which handing a frame to the bus sets the flag (FMark) and a commit of protocol state checks it
        (FAlt FRet FSkip): the checker then rejects any path on which state is committed AFTER the frame it belongs to has
        been handed to the bus"""
        def fseq(items):
            items = [i for i in items if i != 'FSkip']
            if not items:
                return 'FSkip'
            if len(items) == 1:
                return items[0]
            return '(FSeq %s %s)' % (items[0], fseq(items[1:]))

        def has(node):
            return any(is_send(x) or is_commit(x) for x in ast.walk(node))

        def stmts(body):
            out = []
            for st in body:
                if isinstance(st, ast.If):
                    if has(st.test):
                        raise Unsupported('send/commit inside a condition')
                    out.append('(FAlt %s %s)' % (fseq(stmts(st.body)), fseq(stmts(st.orelse))))
                elif isinstance(st, (ast.While, ast.For)):
                    if has(st):
                        # zero or one more iteration after any prefix: the body twice covers "commit in a later iteration after a send"
                        b = fseq(stmts(st.body))
                        out.append('(FAlt FSkip (FSeq %s (FAlt FSkip %s)))' % (b, b))
                    else:
                        out.append('FSkip')
                elif isinstance(st, (ast.Try, ast.With)):
                    if has(st):
                        raise Unsupported('send/commit inside try/with')
                    out.append('FSkip')
                elif isinstance(st, (ast.Return, ast.Raise, ast.Break, ast.Continue)):
                    out.append('FEnd')
                else:
                    toks = []
                    # evaluation order inside one simple statement: a call on the right-hand side happens before the store
                    for x in ast.walk(st):
                        if is_send(x):
                            toks.append('FMark')
                    if is_commit(st):
                        toks.append('(FAlt FRet FSkip)')
                    out += toks or ['FSkip']
            return out
        return fseq(stmts(body))

    def selfcall_named(x, names):
        return (isinstance(x, ast.Call) and isinstance(x.func, ast.Attribute) and isinstance(x.func.value, ast.Name)
                and x.func.value.id == 'self' and x.func.attr in names)

    def order_items():
        # (i) send_pgn: the send session is stored before the RTS is handed to the bus
        for cls, mod, suffix in [('J1939_21', 'j1939_21', '21'), ('J1939_22', 'j1939_22', '22')]:
            def mk(cls=cls, mod=mod, suffix=suffix):
                t, s = tr.trees[mod], tr.src[mod]
                f = find(t, cls, 'send_pgn')
                if not any(selfcall_named(x, ('__send_tp_rts',)) for x in ast.walk(f)):
                    raise Unsupported('no __send_tp_rts in send_pgn')
                sk = order_of(f.body, lambda x: selfcall_named(x, ('__send_tp_rts',)),
                              lambda st: isinstance(st, ast.Assign) and any(isinstance(tg, ast.Subscript) and shared(tg.value) == '_snd_buffer' for tg in st.targets))
                return 'Definition order_send%s : fl :=\n  %s.' % (suffix, sk), M.span_hash(s, f)
            tr.item('SkelGen', 'order_send' + suffix, mk)

            # (ii) the burst loop of the job pass: the session record is updated before the data frame is handed to the bus
            def mkb(cls=cls, mod=mod, suffix=suffix):
                t, s = tr.trees[mod], tr.src[mod]
                f = find(t, cls, 'async_job_thread')
                loops = [w for w in ast.walk(f) if isinstance(w, ast.While) and any(selfcall_named(x, ('__send_tp_dt',)) for x in ast.walk(w))]
                if len(loops) != 1:
                    raise Unsupported('expected exactly one while loop sending data frames in async_job_thread, found %d' % len(loops))
                def commit(st):
                    tgs = st.targets if isinstance(st, ast.Assign) else ([st.target] if isinstance(st, ast.AugAssign) else [])
                    return any(isinstance(tg, ast.Subscript) and isinstance(tg.value, ast.Name) and tg.value.id == 'buf' for tg in tgs)
                sk = order_of(loops[0].body, lambda x: selfcall_named(x, ('__send_tp_dt', '__send_tp_eom_status')), commit)
                return 'Definition order_burst%s : fl :=\n  %s.' % (suffix, sk), M.span_hash(s, f)
            tr.item('SkelGen', 'order_burst' + suffix, mkb)

        # (iii) the controller application: claim state and address are committed before the claim frame is handed to the bus
        def mkca():
            t, s = tr.trees['controller_application'], tr.src['controller_application']
            parts = []
            for fn in ('_process_claim_async', '_process_addressclaim'):
                f = find(t, 'ControllerApplication', fn)
                def commit(st):
                    tgs = st.targets if isinstance(st, ast.Assign) else ([st.target] if isinstance(st, ast.AugAssign) else [])
                    return any(isinstance(tg, ast.Attribute) and isinstance(tg.value, ast.Name) and tg.value.id == 'self'
                               and tg.attr in ('_device_address_state', '_device_address') for tg in tgs)
                parts.append(order_of(f.body, lambda x: selfcall_named(x, ('_send_address_claimed',)), commit))
            f0 = find(t, 'ControllerApplication', '_process_addressclaim')
            return 'Definition order_ca : fl :=\n  (FAlt %s %s).' % (parts[0], parts[1]), M.span_hash(s, f0)
        tr.item('SkelGen', 'order_ca', mkca)
    tr.order_items = order_items
    tr.flow_items = flow_items
    tr.skel_items = skel_items


def install_dm14(tr, M):
    Ev, Unsupported, SymList, find, span_hash = M.Ev, M.Unsupported, M.SymList, M.find, M.span_hash
    import copy

    def dm14_items():
        F = 'Dm14Gen'
        tq, sq = tr.trees['Dm14Query'], tr.src['Dm14Query']
        ts, ss = tr.trees['Dm14Server'], tr.src['Dm14Server']
        C = dict(tr.consts)

        def enum_vals(tree, name):
            out = {}
            for c in ast.walk(tree):
                if isinstance(c, ast.ClassDef) and c.name == name:
                    for x in c.body:
                        if isinstance(x, ast.Assign) and isinstance(x.targets[0], ast.Name) and isinstance(x.value, ast.Constant):
                            out[x.targets[0].id] = x.value.value
            return out
        CMD = enum_vals(tq, 'Command')
        ST = enum_vals(tq, 'Dm15Status')
        RS = enum_vals(ts, 'ResponseState')

        def dm14_payload():
            f = find(tq, 'Dm14Query', '_send_dm14')
            src = ast.unparse(f)
            for need in ["pointer = self.address.to_bytes(length=4, byteorder='little')", "for octet in pointer:", "data.append(octet)"]:
                if need not in src:
                    raise Unsupported('_send_dm14 shape: ' + need)
            apps = []
            ev = Ev(env={'key_or_user_level': 'key'}, selfenv={'object_count': 'object_count', 'direct': 'direct', 'command': {'value': 'command'}}, consts=C)
            for st in f.body:
                if isinstance(st, ast.Expr) and isinstance(st.value, ast.Call) and ast.unparse(st.value.func) == 'data.append':
                    apps.append(ev.scalar(st.value.args[0]))
                elif isinstance(st, ast.For):
                    apps.append('POINTER')
            if len(apps) != 5 or apps[2] != 'POINTER':
                raise Unsupported('_send_dm14 appends %s' % apps)
            call = f.body[-1].value
            ev2 = Ev(selfenv={'_pgn': str(C['ParameterGroupNumber.PGN.DM14']), '_dest_address': 'dest'}, consts=C)
            args = [ev2.scalar(a) for a in call.args[:4]]
            out = ['Definition dm14_payload (object_count direct command address key : Z) : list Z :=\n  [%s; %s] ++ le_bytes4 address ++ [%s; %s].' % (apps[0], apps[1], apps[3], apps[4]),
                   'Definition dm14_send_args (dest : Z) : Z * Z * Z * Z :=\n  (%s, %s, %s, %s).' % tuple(args)]
            return '\n'.join(out), span_hash(sq, f)
        tr.item(F, 'dm14_payload', dm14_payload)

        def dm14_fields():
            f = find(ts, 'DM14Server', 'parse_dm14')
            m = [x for x in f.body if isinstance(x, ast.Match)]
            if len(m) != 1:
                raise Unsupported('parse_dm14 match')
            idle = [c for c in m[0].cases if ast.unparse(c.pattern) == 'ResponseState.IDLE']
            if not idle:
                raise Unsupported('IDLE case')
            got = {}
            ev = Ev(env={'data': 'data'}, selfenv={'length': 'LEN'}, consts=C)
            class Sub(ast.NodeTransformer):
                def visit_Subscript(self_, n):
                    u = ast.unparse(n)
                    if u == 'data[self.length - 1]':
                        return ast.Name(id='D_LAST', ctx=ast.Load())
                    if u == 'data[self.length - 2]':
                        return ast.Name(id='D_LAST2', ctx=ast.Load())
                    return n
            ev.env.update({'D_LAST': '(byte_at data 7)', 'D_LAST2': '(byte_at data 6)'})
            for st in idle[0].body:
                if isinstance(st, ast.Assign) and ast.unparse(st.targets[0]) in ('self.command', 'self.pointer_type', 'self.object_count', 'self.access_level', 'self.direct'):
                    got[ast.unparse(st.targets[0])[5:]] = ev.scalar(Sub().visit(copy.deepcopy(st.value)))
                if isinstance(st, ast.Assign) and ast.unparse(st.targets[0]) == 'self.address':
                    if ast.unparse(st.value) != 'data[2:self.length - 2]':
                        raise Unsupported('address slice')
            if sorted(got) != ['access_level', 'command', 'direct', 'object_count', 'pointer_type']:
                raise Unsupported('parse_dm14 fields %s' % sorted(got))
            out = ['(* field extraction of an 8-byte DM14 (self.length = 8): address = data[2:6] *)']
            for k in sorted(got):
                out.append('Definition dm14_%s (data : list Z) : Z :=\n  %s.' % (k, got[k]))
            # the busy guard
            g = [x for x in f.body if isinstance(x, ast.If)]
            guard = ast.unparse(g[1].test) if len(g) > 1 else ''
            want = "self.sa is not None and sa != self.sa or (self.address is not None and self.address != data[2:self.length - 2]) or self._busy"
            if guard != want:
                raise Unsupported('busy guard: ' + guard)
            out.append('(* busy guard checked: (sa known and different) or (pointer known and different) or busy flag *)')
            out.append('Definition dm14_guard_checked : bool := true.')
            return '\n'.join(out), span_hash(ss, f)
        tr.item(F, 'dm14_fields', dm14_fields)

        def dm15_builder():
            f = find(ts, 'DM14Server', '_send_dm15')
            m = [x for x in f.body if isinstance(x, ast.Match)][0]
            pre = [x for x in f.body if isinstance(x, ast.Assign)]
            out = []
            for case in m.cases:
                pat = ast.unparse(case.pattern)
                if not pat.startswith('ResponseState.'):
                    continue
                name = pat.split('.')[1]
                ev = Ev(env={'direct': 'direct', 'status': 'status', 'object_count': 'object_count', 'error': 'error', 'edcp': 'edcp', 'length': '8'},
                        selfenv={'seed': 'seed', 'command': str(CMD['OPERATION_COMPLETED'])}, consts=C)
                ev.consts = dict(C)
                ev.consts['j1939.Dm15Status.OPERATION_FAILED.value'] = ST['OPERATION_FAILED']
                ev.consts['j1939.Command.OPERATION_COMPLETED.value'] = CMD['OPERATION_COMPLETED']
                ev.env['data'] = SymList(['255'] * 8)

                class Sub(ast.NodeTransformer):
                    def visit_BinOp(self_, n):
                        u = ast.unparse(n)
                        if u.startswith('length - '):
                            return ast.Constant(value=8 - int(u.split('- ')[1]))
                        return self_.generic_visit(n)

                    def visit_Attribute(self_, n):
                        u = ast.unparse(n)
                        if u == 'j1939.Dm15Status.OPERATION_FAILED.value':
                            return ast.Constant(value=ST['OPERATION_FAILED'])
                        if u == 'j1939.Command.OPERATION_COMPLETED.value':
                            return ast.Constant(value=CMD['OPERATION_COMPLETED'])
                        return self_.generic_visit(n)
                stmts = []
                for st in pre:
                    if ast.unparse(st.targets[0]) == 'data[1]':
                        stmts.append(Sub().visit(copy.deepcopy(st)))
                for st in case.body:
                    u = ast.unparse(st)
                    if u.startswith('self.seed = ') or u.startswith('self.state = '):
                        continue
                    if isinstance(st, ast.Raise):
                        stmts = None
                        break
                    st2 = Sub().visit(copy.deepcopy(st))
                    ast.fix_missing_locations(st2)
                    if isinstance(st2, ast.Assign) and ast.unparse(st2.targets[0]) == 'self.command':
                        continue
                    if isinstance(st2, ast.Assign) and ast.unparse(st2.targets[0]) == 'status':
                        ev.env['status'] = ev.scalar(st2.value)
                        continue
                    stmts.append(st2)
                if stmts is None:
                    continue
                ev.run(stmts)
                out.append('Definition dm15_%s (direct status object_count seed error edcp : Z) : list Z :=\n  %s.' % (name, ev.env['data'].coq()))
            if len(out) != 4:
                raise Unsupported('dm15 cases %d' % len(out))
            return '\n'.join(out), span_hash(ss, f)
        tr.item(F, 'dm15_builder', dm15_builder)

        def dm15_fields():
            f = find(tq, 'Dm14Query', '_parse_dm15')
            ev = Ev(env={'data': 'data'}, consts=C)
            got = {}
            for x in ast.walk(f):
                if isinstance(x, ast.Assign) and isinstance(x.targets[0], ast.Name) and x.targets[0].id in ('seed', 'status', 'edcp', 'length'):
                    got[x.targets[0].id] = ev.scalar(x.value)
                if isinstance(x, ast.Assign) and isinstance(x.targets[0], ast.Name) and x.targets[0].id == 'error':
                    if ast.unparse(x.value) != "int.from_bytes(data[2:5], byteorder='little', signed=False)":
                        raise Unsupported('error extraction')
            if sorted(got) != ['edcp', 'length', 'seed', 'status']:
                raise Unsupported('dm15 fields %s' % sorted(got))
            out = ['Definition dm15_%s (data : list Z) : Z :=\n  %s.' % (k, got[k]) for k in sorted(got)]
            out.append('Definition dm15_error (data : list Z) : Z :=\n  le_value (firstn 3 (skipn 2 data)).')
            out.append('Definition dm15_status_BUSY : Z := %d.\nDefinition dm15_status_FAILED : Z := %d.\nDefinition dm15_status_PROCEED : Z := %d.' % (ST['BUSY'], ST['OPERATION_FAILED'], ST['PROCEED']))
            out.append('Definition dm14_cmd_READ : Z := %d.\nDefinition dm14_cmd_WRITE : Z := %d.\nDefinition dm14_cmd_COMPLETED : Z := %d.' % (CMD['READ'], CMD['WRITE'], CMD['OPERATION_COMPLETED']))
            return '\n'.join(out), span_hash(sq, f)
        tr.item(F, 'dm15_fields', dm15_fields)

        def dm16_rule():
            out = []
            for tree, src, cls, nm in [(tq, sq, 'Dm14Query', 'query'), (ts, ss, 'DM14Server', 'server')]:
                f = find(tree, cls, '_send_dm16')
                u = ast.unparse(f)
                if 'data.append(255 if byte_count > 7 else byte_count)' not in u:
                    raise Unsupported('%s._send_dm16 length byte' % cls)
            g = find(tq, 'Dm14Query', '_parse_dm16')
            if 'length = min(data[0], len(data) - 1)' not in ast.unparse(g) or 'self.mem_data = data[1:length + 1]' not in ast.unparse(g):
                raise Unsupported('_parse_dm16 shape')
            out.append('(* DM16 framing checked in both classes: length byte = count if count <= 7 else 0xFF; receiver takes min(data[0], len-1) bytes *)')
            out.append('Definition dm16_single_frame_max : Z := 7.')
            return '\n'.join(out), span_hash(sq, g)
        tr.item(F, 'dm16_rule', dm16_rule)
    tr.dm14_items = dm14_items

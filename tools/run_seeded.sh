#!/bin/bash
# tools/run_seeded.sh [--tier quick|thorough] [ids...] — apply each seeded change to /repo, run the check of its property,
# record the verdict in seeded/<id>/result-<tier>.json, undo the change.  Serial: /repo is shared.
# With VERIF_RUN_ROOT=<copy of /verif> and J1939_REPO=<scratch worktree of /repo> the same loop runs on a scratch copy of the
# machinery against a scratch worktree (several such runs side by side); the verdicts are still recorded under /verif/seeded.
root=${VERIF_RUN_ROOT:-/verif}; repo=${J1939_REPO:-/repo}
cd $root
tier=quick
if [ "$1" = "--tier" ]; then tier=$2; shift 2; fi
ids=${@:-$(ls /verif/seeded)}
for id in $ids; do
  d=/verif/seeded/$id; prop=${id%%-*}
  [ -f $d/patch.diff ] || continue
  if [ -n "$(git -C $repo status --porcelain)" ]; then echo "$repo not clean"; exit 2; fi
  git -C $repo apply $d/patch.diff || { echo "$id apply-failed"; continue; }
  start=$(date +%s)
  out=$(./check $prop --tier $tier 2>&1); rc=$?
  end=$(date +%s)
  git -C $repo checkout -- .
  v=$(echo "$out" | grep -c '^VIOLATION')
  first=$(echo "$out" | grep '^VIOLATION' | head -1)
  nofail=$(echo "$out" | grep '^VIOLATION' | grep -c 'no-failing-input-found')
  rp=$(echo "$first" | sed -n 's/.*replay=\([^ ]*\).*/\1/p')
  what=""
  [ -n "$rp" ] && [ -f "$rp" ] && what=$(/venv/bin/python -c "import json,sys; d=json.load(open('$rp')); print((d.get('what') or '')[:300].replace('\"','\\''))" 2>/dev/null)
  summary=$(echo "$out" | tail -1)
  verdict=missed; [ $rc -ne 0 ] && [ $v -gt 0 ] && verdict=caught
  printf '%s %s rc=%s violations=%s nofail=%s %ss | %s\n' "$id" "$verdict" "$rc" "$v" "$nofail" "$((end-start))" "$what"
  /venv/bin/python - "$d/result-$tier.json" "$id" "$prop" "$verdict" "$rc" "$v" "$nofail" "$((end-start))" "$what" "$summary" <<'P'
import json,sys
f,id_,prop,verdict,rc,v,nofail,secs,what,summary=sys.argv[1:]
import os
json.dump(dict(seeded=id_,check=prop,verdict=verdict,exit=int(rc),violation_lines=int(v),no_failing_input_found=int(nofail),seconds=int(secs),first_violation=what,summary=summary,
               run_on=os.environ.get('J1939_REPO','/repo'),machinery=os.environ.get('VERIF_RUN_ROOT','/verif')),open(f,'w'),indent=1)
P
done
# leave the generated model in step with the unchanged tree
[ "$repo" = /repo ] && ./check setup >/dev/null 2>&1

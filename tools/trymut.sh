#!/bin/sh
# usage: tools/trymut.sh <prop> <file-in-repo> <sed-expr>   — applies a mutation to /repo, runs the check, reverts
prop=$1; f=$2; expr=$3
cd /repo && sed -i "$expr" "$f" && git diff --stat | tail -1
cd /verif && ./check $prop 2>&1 | tail -3
git -C /repo checkout -- .
/venv/bin/python /verif/tools/py2coq.py /repo /verif/coq/theories/gen >/dev/null

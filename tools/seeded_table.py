#!/usr/bin/env python3
"""seeded_table.py — markdown table of the seeded-change experiment (seeded/*/meta.json + result-quick.json, round-1 log)"""
import json, os, re, glob
root = '/verif/seeded'
r1 = {}
for l in open('/verif/seeded/round1.log'):
    m = re.match(r'(C\d\d-\w+) (caught|missed)', l)
    if m:
        r1.setdefault(m.group(1), m.group(2))      # the FIRST verdict of round 1
rows = []
for d in sorted(os.listdir(root)):
    p = os.path.join(root, d)
    if not os.path.isdir(p):
        continue
    meta = json.load(open(os.path.join(p, 'meta.json')))
    res = json.load(open(os.path.join(p, 'result-quick.json'))) if os.path.exists(os.path.join(p, 'result-quick.json')) else {}
    title = (meta.get('title') or '').replace('|', '/').strip()
    fv = (res.get('first_violation') or '').split(':')[0].split(' in scenario')[0][:60]
    rows.append('| %s | %s | %s | %s | %s | %s |' % (d, meta.get('subtlety', ''), title[:150], r1.get(d, 'n/a'), res.get('verdict', 'not run'), fv))
print('| id | subtlety | change (one line) | round 1 | now | reported as |')
print('|----|----------|-------------------|---------|-----|-------------|')
print('\n'.join(rows))
c1 = sum(1 for v in r1.values() if v == 'caught')
print('\nround 1: %d of %d caught; now: %d of %d caught.' % (c1, len(r1), sum(1 for r in rows if '| caught |' in r.replace(r.split('|')[4], '', 0) and r.split('|')[5].strip() == 'caught'), len(rows)))

#!/usr/bin/env python3
"""seeded_table.py — markdown table of the seeded-change experiment: seeded/*/meta.json + result-quick.json (the final
verdict with the checks as committed) + the first verdict each change got when its round was first run
(seeded/round1.log, round2_first.log ... round8_first.log)."""
import json, os, re
root = '/verif/seeded'
first = {}
for f in ('round1.log', 'round2_first.log', 'round3_first.log', 'round4_first.log', 'round5_first.log', 'round6_first.log', 'round7_first.log', 'round8_first.log'):
    p = os.path.join(root, f)
    if not os.path.exists(p):
        continue
    for l in open(p):
        m = re.match(r'(C\d\d-[\w.]+) (caught|missed)', l)
        if m:
            first.setdefault(m.group(1), m.group(2))      # the FIRST verdict


def rnd(d):
    return 8 if '-r8.' in d else 7 if '-r7.' in d else 6 if '-r6.' in d else 5 if '-r5.' in d else 4 if '-r4.' in d else 3 if '-r3.' in d else 2 if '-r2.' in d else 1


rows, tot = [], {r: [0, 0, 0] for r in (1, 2, 3, 4, 5, 6, 7, 8)}
for d in sorted(os.listdir(root)):
    p = os.path.join(root, d)
    if not os.path.isdir(p):
        continue
    meta = json.load(open(os.path.join(p, 'meta.json')))
    res = json.load(open(os.path.join(p, 'result-quick.json'))) if os.path.exists(os.path.join(p, 'result-quick.json')) else {}
    title = (meta.get('title') or '').replace('|', '/').strip()
    fv = (res.get('first_violation') or '').split(':')[0].split(' in scenario')[0][:60]
    if res.get('no_failing_input_found'):
        fv = 'broken obligation / correspondence (no-failing-input-found)'
    r = rnd(d)
    tot[r][0] += 1
    tot[r][1] += first.get(d) == 'caught'
    tot[r][2] += res.get('verdict') == 'caught'
    rows.append('| %s | %d | %s | %s | %s | %s | %s |' % (d, r, meta.get('subtlety', ''), title[:140], first.get(d, 'n/a'), res.get('verdict', 'not run'), fv))
print('| id | round | subtlety | change (one line) | first verdict | now | reported as |')
print('|----|-------|----------|-------------------|---------------|-----|-------------|')
print('\n'.join(rows))
print()
for r in (1, 2, 3, 4, 5, 6, 7, 8):
    print('round %d: %d changes, %d caught at first, %d caught now.' % (r, tot[r][0], tot[r][1], tot[r][2]))

"""corr21.py — correspondence between the real code (handler logs of harness/stack.py) and the Coq model
(theories/Model21.v through Replay21.v): per scenario and stack the digest of everything emitted/returned."""
import digest as D
import common as C


def zl(xs):
    return '[' + ';'.join(str(int(x)) if x >= 0 else '(%d)' % x for x in xs) + ']'


def zz(x):
    return str(int(x)) if x >= 0 else '(%d)' % x


def bb(x):
    return 'true' if x else 'false'


def op_coq(op):
    k = op[0]
    if k == 'listener':
        _, now, cid, ext, rem, err, data = op
        return 'OpListener %s %s %s %s %s %s' % (zz(now), zz(cid), bb(ext), bb(rem), bb(err), zl(data))
    if k == 'notify':
        return 'OpNotify %s %s %s' % (zz(op[1]), zz(op[2]), zl(op[3]))
    if k == 'job':
        return 'OpJob %s %s' % (zz(op[1]), zz(op[2] if len(op) > 2 else 0))
    if k == 'send':
        _, now, dp, pf, ps, prio, sa, data, tl, ff = op
        return 'OpSend %s %s %s %s %s %s (PLit %s)' % (zz(now), zz(dp), zz(pf), zz(ps), zz(prio), zz(sa), zl(data))
    if k == 'add_timer':
        return 'OpAddTimer %s %s %s %s' % (zz(op[1]), zz(op[2]), zz(op[3]), bb(op[4]))
    if k == 'remove_timer':
        return 'OpRemoveTimer %s' % zz(op[2])
    if k == 'subscribe':
        f = op[3]
        return 'OpSubscribe %s %s' % (zz(op[2]), 'FNone' if f == -1 else '(FAddr %s)' % zz(f))
    if k == 'unsubscribe':
        return 'OpUnsubscribe %s' % zz(op[2])
    if k == 'add_ca':
        return 'OpAddCa %s %s %s' % (zz(op[1]), 'None' if op[2] == -1 else '(Some %s)' % zz(op[2]), bb(op[3]))
    if k == 'ca_subscribe':
        return 'OpCaSubscribe %d %s' % (op[1], zz(op[2]))
    if k == 'ca_subreq':
        return 'OpCaSubReq %d %s' % (op[1], zz(op[2]))
    if k == 'ca_unsubreq':
        return 'OpCaUnsubReq %d %s' % (op[1], zz(op[2]))
    if k == 'ca_send':
        _, now, i, dp, pf, ps, prio, data = op
        return 'OpCaSend %d %s %s %s %s %s (PLit %s)' % (i, zz(now), zz(dp), zz(pf), zz(ps), zz(prio), zl(data))
    if k == 'ca_send_message':
        _, now, i, prio, pgn, data = op
        return 'OpCaSendMsg %d %s %s (PLit %s)' % (i, zz(prio), zz(pgn), zl(data))
    if k == 'ca_request':
        _, now, i, dp, pgn, dest = op
        return 'OpCaRequest %d %s %s %s %s' % (i, zz(now), zz(dp), zz(pgn), zz(dest))
    if k == 'ca_start':
        return 'OpCaStart %d %s %s' % (op[2], zz(op[1]), zz(op[3]))
    if k == 'ca_stop':
        return 'OpCaStop %d' % op[2]
    raise ValueError('op not expressible in the model: %r' % (op,))


def op_coq22(op):
    k = op[0]
    if k == 'send':
        _, now, dp, pf, ps, prio, sa, data, tl, ff = op
        return 'O2Send %s %s %s %s %s %s (PLit %s) %s %s' % (zz(now), zz(dp), zz(pf), zz(ps), zz(prio), zz(sa), zl(data), zz(tl), zz(ff))
    base = op_coq(op)
    if not base.startswith('Op') or base.split()[0] not in ('OpSubscribe', 'OpUnsubscribe', 'OpAddCa', 'OpCaSubscribe', 'OpCaSubReq', 'OpCaUnsubReq', 'OpAddTimer',
                                                           'OpRemoveTimer', 'OpNotify', 'OpListener', 'OpJob',
                                                           'OpCaStart', 'OpCaStop', 'OpCaSendMsg'):
        raise ValueError('op not expressible in the FD model: %r' % (op,))
    return 'O2' + base[2:]


def log_coq(oplog, fd=False):
    parts = []
    for e in oplog:
        if fd:
            parts.append('C2' if e[0] == 'C' else 'B2 (%s)' % op_coq22(e[1]))
        else:
            parts.append('Cn' if e[0] == 'C' else 'B (%s)' % op_coq(e[1]))
    return '[' + ';\n '.join(parts) + ']'


def init_coq(sd):
    def us(x):
        return 'None' if x is None else '(Some %d)' % int(round(x * 1e6))
    fn = 'init_node' if sd.get('dll', 'j1939-21') == 'j1939-21' else 'init_node22'
    return '(%s %d %s %s)' % (fn, sd.get('max_cmdt', 1), us(sd.get('cmdt_iv')), us(sd.get('bam_iv')))


SKIPPED = [0]
HEADER = ('From J1939 Require Import Base CodecGlue Model21 Replay21 Model22 Replay22.\nOpen Scope Z_scope.\n'
          'Set Warnings "-abstract-large-number".\n')


def correspond(work, runs, shard=40, tag='c21'):
    """runs: list of (sc, res). Returns (n_traces, mismatches[(k, j)], errors).  Both data link layers."""
    cases = []
    for k, (sc, res) in enumerate(runs):
        for j, sd in enumerate(sc['stacks']):
            if j >= len(res.oplog) or not res.oplog[j]:
                continue
            fd = sd.get('dll', 'j1939-21') != 'j1939-21'
            if fd:
                try:
                    log_coq(res.oplog[j], fd)
                except ValueError:
                    # operations of the controller application on an FD stack are not part of the FD replay machine:
                    # such a trace is judged by the oracle only
                    SKIPPED[0] += 1
                    continue
            cases.append((k, j, init_coq(sd), res.oplog[j], D.digest(res.outs[j]), fd))
    files = []
    for s in range(0, len(cases), shard):
        chunk = cases[s:s + shard]
        body = HEADER
        for (k, j, init, log, dg, fd) in chunk:
            body += 'Definition l_%d_%d : list %s := %s.\n' % (k, j, 'ev22' if fd else 'ev', log_coq(log, fd))
        body += 'Eval vm_compute in [' + '; '.join('%s %s l_%d_%d' % ('case_digest22' if fd else 'case_digest', init, k, j)
                                                   for (k, j, init, log, dg, fd) in chunk) + '].\n'
        files.append(('%s_%d' % (tag, s // shard), body))
    res = C.run_many_cases(work, files, timeout=600, par=12)
    mism, errors = [], []
    for fi, (name, _) in enumerate(files):
        rc, out = res[name]
        chunk = cases[fi * shard:(fi + 1) * shard]
        if rc != 0:
            errors.append((name, out[-800:]))
            continue
        got = C.parse_nat_list(out)
        if len(got) != 1 or len(got[0]) != len(chunk):
            errors.append((name, 'unparsable output: ' + out[-400:]))
            continue
        for (k, j, init, log, dg, fd), g in zip(chunk, got[0]):
            if g != dg:
                mism.append((k, j, g))
    return len(cases), mism, errors


def first_difference(work, sc, res, j, tag='diff'):
    """full model output for one (scenario, stack); returns (index, model_slice, impl_slice)"""
    fd = sc['stacks'][j].get('dll', 'j1939-21') != 'j1939-21'
    body = HEADER + 'Definition l : list %s := %s.\n' % ('ev22' if fd else 'ev', log_coq(res.oplog[j], fd))
    body += 'Eval vm_compute in %s %s l.\n' % ('case_full22' if fd else 'case_full', init_coq(sc['stacks'][j]))
    rc, out = C.run_cases_file(work, tag, '', body[len(C.COQ_HEADER) - len(C.COQ_HEADER):], timeout=300)
    got = C.parse_nat_list(out)
    if rc != 0 or not got:
        return None, out[-500:], None
    m = got[0]
    im = res.outs[j]
    for i in range(max(len(m), len(im))):
        a = m[i] if i < len(m) else None
        b = im[i] if i < len(im) else None
        if a != b:
            return i, m[max(0, i - 12):i + 12], im[max(0, i - 12):i + 12]
    return None, [], []

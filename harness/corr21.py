"""corr21.py — correspondence between the real code (handler logs of harness/stack.py) and the Coq model
(theories/Model21.v through Replay21.v): per scenario and stack the digest of everything emitted/returned."""
import digest as D
import common as C


def zl(xs):
    return '[' + ';'.join(str(int(x)) if x >= 0 else '(%d)' % x for x in xs) + ']'


def zz(x):
    return str(int(x)) if x >= 0 else '(%d)' % x


def bb(x):
    return 'true' if x else 'false'


def op_coq(op):
    k = op[0]
    if k == 'listener':
        _, now, cid, ext, rem, err, data = op
        return 'OpListener %s %s %s %s %s %s' % (zz(now), zz(cid), bb(ext), bb(rem), bb(err), zl(data))
    if k == 'notify':
        return 'OpNotify %s %s %s' % (zz(op[1]), zz(op[2]), zl(op[3]))
    if k == 'job':
        return 'OpJob %s' % zz(op[1])
    if k == 'send':
        _, now, dp, pf, ps, prio, sa, data, tl, ff = op
        return 'OpSend %s %s %s %s %s %s (PLit %s)' % (zz(now), zz(dp), zz(pf), zz(ps), zz(prio), zz(sa), zl(data))
    if k == 'add_timer':
        return 'OpAddTimer %s %s %s %s' % (zz(op[1]), zz(op[2]), zz(op[3]), bb(op[4]))
    if k == 'remove_timer':
        return 'OpRemoveTimer %s' % zz(op[2])
    if k == 'subscribe':
        f = op[3]
        return 'OpSubscribe %s %s' % (zz(op[2]), 'FNone' if f == -1 else '(FAddr %s)' % zz(f))
    if k == 'unsubscribe':
        return 'OpUnsubscribe %s' % zz(op[2])
    if k == 'add_ca':
        return 'OpAddCa %s %s %s' % (zz(op[1]), 'None' if op[2] == -1 else '(Some %s)' % zz(op[2]), bb(op[3]))
    if k == 'ca_subscribe':
        return 'OpCaSubscribe %d %s' % (op[1], zz(op[2]))
    if k == 'ca_subreq':
        return 'OpCaSubReq %d %s' % (op[1], zz(op[2]))
    if k == 'ca_send':
        _, now, i, dp, pf, ps, prio, data = op
        return 'OpCaSend %d %s %s %s %s %s (PLit %s)' % (i, zz(now), zz(dp), zz(pf), zz(ps), zz(prio), zl(data))
    if k == 'ca_send_message':
        _, now, i, prio, pgn, data = op
        return 'OpCaSendMsg %d %s %s (PLit %s)' % (i, zz(prio), zz(pgn), zl(data))
    if k == 'ca_request':
        _, now, i, dp, pgn, dest = op
        return 'OpCaRequest %d %s %s %s %s' % (i, zz(now), zz(dp), zz(pgn), zz(dest))
    if k == 'ca_start':
        return 'OpCaStart %d %s %s' % (op[2], zz(op[1]), zz(op[3]))
    if k == 'ca_stop':
        return 'OpCaStop %d' % op[2]
    raise ValueError('op not expressible in the model: %r' % (op,))


def log_coq(oplog):
    parts = []
    for e in oplog:
        parts.append('Cn' if e[0] == 'C' else 'B (%s)' % op_coq(e[1]))
    return '[' + ';\n '.join(parts) + ']'


def init_coq(sd):
    def us(x):
        return 'None' if x is None else '(Some %d)' % int(round(x * 1e6))
    return '(init_node %d %s %s)' % (sd.get('max_cmdt', 1), us(sd.get('cmdt_iv')), us(sd.get('bam_iv')))


HEADER = ('From J1939 Require Import Base CodecGlue Model21 Replay21.\nOpen Scope Z_scope.\n'
          'Set Warnings "-abstract-large-number".\n')


def correspond(work, runs, shard=40, tag='c21'):
    """runs: list of (sc, res). Returns (n_traces, mismatches[(k, j)], errors)"""
    cases = []
    for k, (sc, res) in enumerate(runs):
        for j, sd in enumerate(sc['stacks']):
            if sd.get('dll', 'j1939-21') != 'j1939-21':
                continue
            cases.append((k, j, init_coq(sd), res.oplog[j], D.digest(res.outs[j])))
    files = []
    for s in range(0, len(cases), shard):
        chunk = cases[s:s + shard]
        body = HEADER
        for (k, j, init, log, dg) in chunk:
            body += 'Definition l_%d_%d : list ev := %s.\n' % (k, j, log_coq(log))
        body += 'Eval vm_compute in [' + '; '.join('case_digest %s l_%d_%d' % (init, k, j) for (k, j, init, log, dg) in chunk) + '].\n'
        files.append(('%s_%d' % (tag, s // shard), body))
    res = C.run_many_cases(work, files, timeout=600, par=12)
    mism, errors = [], []
    for fi, (name, _) in enumerate(files):
        rc, out = res[name]
        chunk = cases[fi * shard:(fi + 1) * shard]
        if rc != 0:
            errors.append((name, out[-800:]))
            continue
        got = C.parse_nat_list(out)
        if len(got) != 1 or len(got[0]) != len(chunk):
            errors.append((name, 'unparsable output: ' + out[-400:]))
            continue
        for (k, j, init, log, dg), g in zip(chunk, got[0]):
            if g != dg:
                mism.append((k, j, g))
    return len(cases), mism, errors


def first_difference(work, sc, res, j, tag='diff'):
    """full model output for one (scenario, stack); returns (index, model_slice, impl_slice)"""
    body = HEADER + 'Definition l : list ev := %s.\n' % log_coq(res.oplog[j])
    body += 'Eval vm_compute in case_full %s l.\n' % init_coq(sc['stacks'][j])
    rc, out = C.run_cases_file(work, tag, '', body[len(C.COQ_HEADER) - len(C.COQ_HEADER):], timeout=300)
    got = C.parse_nat_list(out)
    if rc != 0 or not got:
        return None, out[-500:], None
    m = got[0]
    im = res.outs[j]
    for i in range(max(len(m), len(im))):
        a = m[i] if i < len(m) else None
        b = im[i] if i < len(im) else None
        if a != b:
            return i, m[max(0, i - 12):i + 12], im[max(0, i - 12):i + 12]
    return None, [], []

"""C11 — FD multi-PG packing preserves every group and honours frame and time limits."""
import json
from collections import Counter
import common as C
import scen, sprop, oracle_tp, refpeer as R
from scen import payload

import netcorr
FILES = ['theories/Base.v', 'theories/gen/Codec.v', 'theories/gen/Tp21Gen.v', 'theories/gen/CaGen.v', 'theories/gen/Tp22Gen.v', 'theories/CodecGlue.v',
         'theories/Model21.v', 'theories/Model22.v', 'theories/Replay21.v', 'theories/Replay22.v', 'proofs/CodecProofs.v', 'proofs/Flat.v', 'proofs/MpgProofs.v',
         'proofs/NoOversleep22.v', 'proofs/Net21.v', 'proofs/Net21Proofs.v', 'proofs/Net22.v', 'proofs/Net22Proofs.v', 'proofs/Net22Bam.v', 'proofs/Net22Mpg.v']
LEGAL = [0, 1, 2, 3, 4, 5, 6, 7, 8, 12, 16, 20, 24, 32, 48, 64]
FBFF, FEFF = 2, 3


def decode_mpg(data):
    """independent decoder: list of (tos, tf, cpgn, bytes); stops at padding (TOS 0) or when fewer than 5 bytes remain"""
    out = []
    d = list(data)
    while len(d) > 4:
        tos, tf = d[0] >> 5, (d[0] >> 2) & 7
        if tos == 0:
            break
        cpgn = ((d[0] & 3) << 16) | (d[1] << 8) | d[2]
        n = d[3]
        if 4 + n > len(d):
            return None
        out.append((tos, tf, cpgn, tuple(d[4:4 + n])))
        d = d[4 + n:]
    return out


def pdu1_pf(rng):
    """a PDU1 format byte: the whole range 0..239 counts, its two ends in particular (239 = Proprietary A is the last PDU1 value)"""
    if rng.random() < 0.2:
        return rng.choice([239, 239, 238, 0, 1])
    return rng.randrange(0x50, 0xE0)


def gen(rng, k):
    sa = 0x20
    dests = [255] + rng.sample([0x30, 0x31, 0x32, 0x00], rng.randint(0, 3))       # (address 0 is an address like any other)
    stacks = [dict(dll='j1939-22', max_cmdt=3, subs=[dict(cid=1, filt=sa)], cas=[]),
              dict(dll='j1939-22', max_cmdt=3, subs=[dict(cid=10, filt=0x30), dict(cid=11, filt=None)],
                   cas=[dict(name=9, addr=0x31, bypass=True, subs=[12]), dict(name=8, addr=0x33, bypass=True, subs=[13])]),
              dict(dll='j1939-22', max_cmdt=3, subs=[dict(cid=20, filt=0x32), dict(cid=21, filt=0x00)], cas=[])]
    script = []
    t = 1000
    from_timer = rng.random() < 0.3
    burst_limit = rng.choice([0, 1000, 10000, 50000, 200000])
    for i in range(rng.randint(1, 12)):
        t += rng.choice([0, 0, 0, 1, 500, 3000, 40000, 300000, 1200000])
        n = rng.choice([1, 2, 8, 20, 27, 28, 29, 56, 59, 60, rng.randint(1, 60)])
        d = rng.choice(dests)
        ff = FEFF if rng.random() < 0.8 else FBFF
        if d == 255:
            pf, ps = (rng.randint(240, 255), rng.randrange(256)) if rng.random() < 0.6 else (pdu1_pf(rng), 255)
        else:
            pf, ps = pdu1_pf(rng), d
        if ff == FBFF and d != 255:
            ff = FEFF
        tl = rng.choice([0, burst_limit, burst_limit, rng.choice([1000, 5000, 20000, 100000, 200000])])
        a = [rng.choice([0, 1]), pf, ps, rng.randint(0, 7), sa, dict(seed=rng.getrandbits(24), len=n), tl, ff]
        if from_timer and rng.random() < 0.5:
            script.append(dict(t=t, s=0, op='add_timer', cid=500 + i, delta=rng.choice([1000, 30000]), ret=False, script=[dict(op='send', a=a)]))
        else:
            script.append(dict(t=t, s=0, op='send', a=a))
    if rng.random() < 0.25:
        # a group with a SHORTER limit joins an open buffer at a LATER instant, so that its own deadline lies after the buffer's:
        # the buffer still leaves at the earliest deadline of the groups in it
        d = rng.choice(dests)
        t += 500000
        tl1 = rng.choice([100000, 200000])
        tl2 = tl1 // 2
        delta = tl1 - tl2 + rng.choice([10000, 30000])
        for (tt, tl) in ((t, tl1), (t + delta, tl2)):
            pf, ps = (rng.randint(240, 255), rng.randrange(256)) if d == 255 else (rng.randrange(0x50, 0xE0), d)
            script.append(dict(t=tt, s=0, op='send', a=[0, pf, ps, rng.randint(0, 7), sa, dict(seed=rng.getrandbits(24), len=rng.choice([4, 8, 12])), tl, FEFF]))
        t += delta
    if rng.random() < 0.2:
        # many tiny groups for one destination inside one window: up to 12 fit into one 64-byte frame (5 bytes each)
        d = rng.choice(dests)
        tl = rng.choice([5000, 20000, 100000])
        t += 400000
        for i in range(rng.randint(9, 13)):
            n = rng.choice([1, 1, 2, 3])
            pf, ps = (rng.randint(240, 255), rng.randrange(256)) if d == 255 else (rng.randrange(0x50, 0xE0), d)
            script.append(dict(t=t, s=0, op='send', a=[0, pf, ps, rng.randint(0, 7), sa, dict(seed=rng.getrandbits(24), len=n), tl, FEFF]))
    if rng.random() < 0.3:
        # cyclic application timers on the sending ECU: a re-armed timer must not postpone a buffer's time limit
        for i in range(rng.choice([1, 2])):
            script.append(dict(t=rng.choice([100, 900, 50000]), s=0, op='add_timer', cid=800 + i, delta=rng.choice([150000, 400000, 700000, 1000000]), ret=True))
        script.sort(key=lambda e: e['t'])
    script.sort(key=lambda e: e['t'])
    return dict(stacks=stacks, lat=[rng.choice([1, 500])], jit=[rng.choice([1, 400])], script=script, horizon=t + 6_500_000, reuse_buffers=rng.random() < 0.33)


def submissions(sc, res):
    """(t, a) of every send_pgn(<=60 bytes) that was accepted, incl. those issued from timer callbacks"""
    subs = []
    for e in res.trace:
        if e[2] == 'send_pgn' and e[1] == 0:
            subs.append(e)
    return subs


def oracle(sc, res):
    v = []
    J = max(sc['jit'])
    # all submitted groups in order (top level and from callbacks): read the harness trace
    sends = [e for e in res.trace if e[2] == 'send_pgn' and e[1] == 0]
    specs = []
    for ev in sc['script']:
        if ev['op'] == 'send':
            specs.append(ev['a'])
        elif ev['op'] == 'add_timer' and ev.get('script'):
            specs += [a['a'] for a in ev['script'] if a['op'] == 'send']
    # pair trace entries with their specs by (dp, pf, ps, prio, len) in time order
    pending = list(specs)
    groups = []
    for e in sends:
        t, _, _, dp, pf, ps, prio, sa, ln, r, dat = e
        # (the payload decides between two submissions that differ in nothing else — two timers sending the same group)
        m = next((a for a in pending if a[0] == dp and a[1] == pf and a[2] == ps and a[3] == prio and a[5]['len'] == ln
                  and tuple(payload(a[5])) == tuple(dat)), None)
        if m is None:
            continue
        pending.remove(m)
        if r is not True:
            continue
        groups.append(dict(t=t, pgn=oracle_tp.expected_pgn(dp, pf, ps), dest=oracle_tp.dest_of(pf, ps), data=tuple(payload(m[5])), limit=m[6], ff=m[7], prio=prio))
    frames = [e for e in res.trace if e[2] == 'tx' and e[1] == 0]
    want = Counter((g['ff'], g['dest'], g['pgn'], g['data']) for g in groups)
    seen = Counter()
    first_tx = {}
    for e in frames:
        t, _, _, cid, ext, fd, data, _st = e
        if not fd:
            v.append(dict(kind='multi-pg-frame-not-fd', id=hex(cid)))
        if len(data) > 64 or len(data) not in LEGAL:
            v.append(dict(kind='illegal-frame-length', length=len(data)))
        dec = decode_mpg(data)
        if dec is None:
            v.append(dict(kind='frame-not-decodable', data=list(data)[:16]))
            continue
        if ext:
            prio, pgn18, sa = R.ref_parse_id(cid)
            if (pgn18 & 0xFF00) != 0x2500 or sa != 0x20:
                v.append(dict(kind='multi-pg-identifier', id=hex(cid)))
            dest, ff = pgn18 & 0xFF, FEFF
        else:
            if cid != 0x20:
                v.append(dict(kind='fbff-identifier', id=hex(cid)))
            dest, ff = 255, FBFF
        used = sum(4 + len(g[3]) for g in dec)
        pad = list(data[used:])
        if any(x not in (0, 0xAA) for x in pad) or (len(pad) > 0 and pad[0] != 0 and len(pad) > 4):
            v.append(dict(kind='padding-not-skippable', pad=pad))
        for (tos, tf, cpgn, d) in dec:
            key = (ff, dest, cpgn, d)
            if tos != 2 or tf != 0:
                v.append(dict(kind='group-header', tos=tos, tf=tf))
            seen[key] += 1
            first_tx.setdefault(key, []).append(t)
            if want.get(key, 0) == 0:
                v.append(dict(kind='group-in-wrong-frame-or-corrupted', ff=ff, dest=dest, pgn=cpgn, length=len(d)))
        if ext and dec:
            ps_ = [g['prio'] for g in groups if any((g['ff'], g['dest'], g['pgn'], g['data']) == (ff, dest, c, d) for (_, _, c, d) in dec)]
            if ps_ and prio != min(ps_):
                v.append(dict(kind='frame-priority-not-minimum', prio=prio))
    for key, n in want.items():
        if seen.get(key, 0) != n:
            v.append(dict(kind='group-not-sent-exactly-once', ff=key[0], dest=key[1], pgn=key[2], length=len(key[3]), expected=n, observed=seen.get(key, 0)))
    # time limit: each group is on the bus no later than submit + limit + J
    for g in groups:
        key = (g['ff'], g['dest'], g['pgn'], g['data'])
        ts = first_tx.get(key, [])
        ok = any(g['t'] <= t <= g['t'] + g['limit'] + J + 1 for t in ts)
        if ts and not ok:
            v.append(dict(kind='group-later-than-its-time-limit', submitted=g['t'], limit=g['limit'], sent=ts, jitter=J))
    # delivery to the addressed applications (FEFF only), exactly once
    reg = oracle_tp.registry(sc)
    exp = Counter()
    for g in groups:
        if g['ff'] != FEFF:
            continue
        for j, cid in oracle_tp.receivers(sc, reg, 0, g['dest']):
            exp[(j, cid, g['pgn'], 0x20, g['data'])] += 1
    obs = Counter()
    for e in res.trace:
        if e[2] == 'cb' and e[1] != 0:
            obs[(e[1], e[3], e[5], e[6], tuple(e[7]))] += 1
    for kx in set(exp) | set(obs):
        if exp.get(kx, 0) != obs.get(kx, 0):
            v.append(dict(kind='group-delivery', stack=kx[0], cid=kx[1], pgn=kx[2], length=len(kx[4]), expected=exp.get(kx, 0), observed=obs.get(kx, 0)))
            break
    for j, js in enumerate(res.job):
        if js != 'alive':
            v.append(dict(kind='job-thread-' + js, stack=j))
    if not all(res.empty):
        v.append(dict(kind='buffer-left', empty=res.empty))
    return v


def nontrivial(sc, res):
    return any(e[2] == 'tx' and e[1] == 0 and len(e[6]) > 12 for e in res.trace)


def run(out, tier, rng, work):
    out.rule = ('one real J1939-22 sender and two real receivers; sequences of 1..12 send_pgn calls with lengths 1..60, PDU1/PDU2, 1..3 '
                'destinations incl. global, time limits {0, 1..200 ms}, FEFF end to end and FBFF broadcast (decoded by an independent decoder), '
                'from the application thread or from a timer callback, at instants spread over the job thread\'s sleep; oracle: every group on '
                'the bus exactly once in a frame of its own format/destination, legal FD length <= 64, skippable padding, minimum priority, '
                'no later than submit + limit + J, delivered once to the addressed listeners; all handler logs replayed on the Coq model '
                '(Model22); non-trivial = a frame with more than one group or padding was sent'
                ' Cyclic application timers on the sending ECU in 30 %.')
    out.assumptions = ['A1-A6 of DESIGN.md section 3', 'FBFF frames are not received by the stack (11-bit ids are dropped by the listener): decoded by the oracle only']
    # the multi-PG closed loop of theorem C11_closed_loop_delivers_every_group against two real FD stacks: the frame, its time,
    # the callbacks on B in order
    C.std_proof_stage(out, 'C11', FILES)
    nn, nmism, nerrors, nbad = netcorr.run(work, rng, 10 if tier == 'quick' else 150, tag='c11net', only='mpg')
    out.extra['closed_loop_cases'] = nn
    for c, sc, what in nbad[:1]:
        out.violation(what, dict(kind='closed-loop-not-delivered'),
                      dict(broke='oracle', scenario=sc, violation=dict(kind='closed-loop-not-delivered', what=what), scenario_name='closed-loop',
                           how='./check replay <this file> re-runs the scenario on /repo and prints the oracle verdict'))
    for name, o in nerrors[:3]:
        out.broken.append('closed-loop correspondence %s did not evaluate: %s' % (name, o[-200:].replace('\n', ' ')))
    for c, i, m, im in nmism[:3]:
        out.broken.append('closed-loop correspondence: network model and two real stacks differ (case %s) at observation %s: model %s / impl %s'
                          % (str(c)[:300], i, str(m)[:120], str(im)[:120]))
    sprop.run_stateful(out, 'C11', tier, rng, work, FILES, gen, oracle, 120, 3000, nontrivial, proof=False,
                       sample=lambda sc, res: dict(sends=[e['a'][1:3] + [e['a'][5]['len']] + e['a'][6:8] for e in sc['script'] if e['op'] == 'send'][:5],
                                                   frames=sum(1 for e in res.trace if e[2] == 'tx')))

"""C05 — messages reach only the addressed applications; foreign traffic is ignored."""
import json
import common as C
import scen, sprop, refpeer as R, gen_tp, oracle_tp

FILES = ['theories/Base.v', 'theories/gen/Codec.v', 'theories/gen/Tp21Gen.v', 'theories/gen/CaGen.v', 'theories/CodecGlue.v',
         'theories/Model21.v', 'theories/Replay21.v', 'proofs/CodecProofs.v', 'proofs/Flat.v', 'proofs/FilterProofs.v',
         'theories/gen/Tp22Gen.v', 'theories/Model22.v', 'proofs/MpgProofs.v', 'proofs/PoolProofs.v', 'proofs/FilterProofs22.v']

SHAPES = [
    dict(name='unfiltered-only', subs=[dict(cid=1, filt=None)], cas=[]),
    dict(name='ecu-addr+unfiltered', subs=[dict(cid=1, filt=0x40), dict(cid=2, filt=None)], cas=[]),
    dict(name='ca-normal+ca-without-address', subs=[], cas=[dict(name=11, addr=0x41, bypass=True, subs=[3]), dict(name=12, addr=0x42, bypass=False, subs=[4])]),
    dict(name='ca+ecu-addr+unfiltered', subs=[dict(cid=5, filt=0x43), dict(cid=6, filt=None)], cas=[dict(name=13, addr=0x44, bypass=True, subs=[7])]),
    # a listener bound to address 0 is bound to ONE address like any other (0 is a legal J1939 address)
    dict(name='ecu-addr-zero+ecu-addr', subs=[dict(cid=8, filt=0), dict(cid=9, filt=0x46)], cas=[dict(name=14, addr=0x47, bypass=True, subs=[10])]),
]


def owned(shape):
    o = set(s['filt'] for s in shape['subs'] if s['filt'] is not None)
    o |= set(c['addr'] for c in shape['cas'] if c['bypass'])
    return o


def expected_cbs(shape, dest, broadcast):
    """cids that must fire for a message with destination dest (255 = broadcast / PDU2)"""
    if broadcast or dest == 255:
        return sorted([s['cid'] for s in shape['subs']] + [cid for c in shape['cas'] for cid in c['subs']])
    if dest not in owned(shape):
        return []
    out = [s['cid'] for s in shape['subs'] if s['filt'] is None or s['filt'] == dest]
    out += [cid for c in shape['cas'] if c['bypass'] and c['addr'] == dest for cid in c['subs']]
    return sorted(out)


def frames_for(dll, d, sa=0x90):
    """(kind, id, data, fd, broadcast?, dest-specific answer expected?)"""
    fr = [('pdu1-app', R.ref_can_id(6, 0xD000 + d, sa), [1, 2, 3, 4, 5, 6, 7, 8], False, False),
          ('pdu1-app-dp1', R.ref_can_id(6, 0x1D000 + d, sa), [8, 7, 6, 5, 4, 3, 2, 1], False, False),      # data page 1
          ('pdu1-app-dp1-low', R.ref_can_id(3, 0x10100 + d, sa), [1], False, False),
          ('pdu2', R.ref_can_id(6, 0xFE00 + d, sa), [9, 8, 7], False, True),
          ('pdu2-dp1', R.ref_can_id(6, 0x1F000 + d, sa), [9, 8, 7, 6], False, True),
          ('request', R.ref_can_id(6, 0xEA00 + d, sa), [0xCA, 0xFE, 0x00], False, False)]
    # an address claim sent to ONE destination, from the very address a local CA holds (0x41 / 0x44 / 0x47 in the shapes): to a
    # foreign destination it is foreign traffic like any other — no answer, no state
    fr += [('claim-from-a-local-address', R.ref_can_id(6, 0xEE00 + d, a), [1, 0, 0, 0, 0, 0, 0, 0], False, False) for a in (0x41, 0x44, 0x47)]
    if dll == 'j1939-21':
        fr += [('tp-rts', R.ref_tp_cm_id(7, d, sa), R.ref_rts(20, 3, 3, 0xD000), False, False),
               ('tp-cts', R.ref_tp_cm_id(7, d, sa), R.ref_cts(1, 1, 0xD000), False, False),
               ('tp-abort', R.ref_tp_cm_id(7, d, sa), R.ref_abort(1, 0xD000), False, False),
               ('tp-eoma', R.ref_tp_cm_id(7, d, sa), R.ref_eom_ack(20, 3, 0xD000), False, False),
               ('tp-dt', R.ref_tp_dt_id(d, sa), [1, 1, 2, 3, 4, 5, 6, 7], False, False)]
    else:
        def cm(ctrl, sess, size, nseg, b7, b8, pgn):
            return [ctrl | (sess << 4), size & 255, (size >> 8) & 255, (size >> 16) & 255, nseg & 255, (nseg >> 8) & 255, (nseg >> 16) & 255, b7, b8, pgn & 255, (pgn >> 8) & 255, (pgn >> 16) & 255]
        cmid = R.ref_can_id(7, 0x4D00 + d, sa)
        fr += [('fd-rts', cmid, cm(0, 1, 100, 2, 2, 0, 0xD000), True, False),
               ('fd-cts', cmid, cm(1, 1, 0xFFFFFF, 1, 1, 0, 0xD000), True, False),
               ('fd-abort', cmid, cm(15, 1, 0xFFFFFF, 0xFFFFFF, 0xFF, 1, 0xD000), True, False),
               ('fd-eoms', cmid, cm(2, 1, 100, 2, 0, 0, 0xD000), True, False),
               ('fd-dt', R.ref_can_id(7, 0x4E00 + d, sa), [0x10, 1, 0, 0] + list(range(60)), True, False),
               ('fd-multipg', R.ref_can_id(6, 0x2500 + d, sa), [0x40, 0xD0, 0x00, 3, 7, 8, 9, 0], True, False),
               # ... carrying a PDU2 parameter group: still addressed to ONE node by the frame's destination
               ('fd-multipg-pdu2', R.ref_can_id(6, 0x2500 + d, sa), [0x40, 0xFE, 0x12, 3, 7, 8, 9, 0], True, False)]
    return fr


def one_frame_cases(dlls, dests):
    for dll in dlls:
        for si, shape in enumerate(SHAPES):
            for d in dests:
                for kind, cid, data, fd, bc in frames_for(dll, d):
                    sc = dict(stacks=[dict(dll=dll, max_cmdt=2, subs=shape['subs'], cas=shape['cas'])], lat=[1], jit=[1], script=[],
                              inject=[dict(t=1000, to=0, id=cid, data=data, fd=fd, via='listener')], horizon=4_000_000,
                              meta=dict(shape=si, kind=kind, dest=d, broadcast=bc, dll=dll))
                    yield sc


def flag_cases(dlls):
    for dll in dlls:
        for ext in (True, False):
            for remote in (True, False):
                for error in (True, False):
                    for fdf in (False, True):
                        for si, cid11 in ((0, 0x123), (4, 0x023)):      # (an 11-bit id read as 29 bits would address 1 resp. 0)
                            cid = R.ref_can_id(6, 0xFE11, 0x90) if ext else cid11
                            yield dict(stacks=[dict(dll=dll, max_cmdt=2, subs=SHAPES[si]['subs'], cas=SHAPES[si]['cas'])], lat=[1], jit=[1], script=[],
                                       inject=[dict(t=1000, to=0, id=cid, data=[1, 2, 3], ext=ext, fd=fdf, remote=remote, error=error, via='listener')],
                                       horizon=100000, meta=dict(shape=si, kind='flags', ext=ext, fd=fdf, remote=remote, error=error, dll=dll, dest=255, broadcast=True))


def leaver_cases(rng, n):
    """an RTS/CTS (J1939-21) receive session towards an address whose only owner — a bound listener — goes away in the
    middle of the transfer: the remaining data packets are then addressed to an address nobody here owns"""
    for k in range(n):
        d = rng.choice([0x40, 0x00, 0x7E, rng.randrange(0xFE)])
        sa = rng.choice([0x90, 0x01, rng.randrange(0xFE)])
        if sa == d:
            sa = (d + 1) % 0xFE
        npk = rng.randint(2, 6)
        size = 7 * npk - rng.randint(0, 6)
        window = rng.choice([1, 2, 255])
        leave_after = rng.randint(0, npk - 1)          # data packets handled before the owner leaves
        unf = rng.random() < 0.5                        # an unfiltered listener is present as well
        subs = [dict(cid=1, filt=d)] + ([dict(cid=2, filt=None)] if unf else [])
        inject = [dict(t=1000, to=0, id=R.ref_tp_cm_id(7, d, sa), data=R.ref_rts(size, npk, 255, 0xD100), via='listener')]
        t = 20000
        for q in range(1, npk + 1):
            inject.append(dict(t=t, to=0, id=R.ref_tp_dt_id(d, sa), data=[q] + [(q * 16 + i) & 0xFF for i in range(7)], via='listener'))
            t += 20000
        t_leave = 20000 * (leave_after + 1) - 5000
        script = [dict(t=t_leave, s=0, op='unsubscribe', cid=1)]
        yield dict(stacks=[dict(dll='j1939-21', max_cmdt=window, subs=subs, cas=[])], lat=[1], jit=[1], script=script, inject=inject,
                   horizon=t + 100000, meta=dict(kind='owner-leaves', dest=d, sa=sa, t_leave=t_leave, packets=npk, leave_after=leave_after, unfiltered=unf, shape=0, dll='j1939-21', broadcast=False))


def late_cases(rng, n):
    """a listener bound to a CA AFTER the CA has become operational (by claiming or by bypass); the CA then loses its address
    to a lower NAME (or keeps it, as the control): "a CA that does not currently hold an address receives nothing
    destination-specific" — frames to the address it used to hold are then foreign traffic"""
    for k in range(n):
        dll = 'j1939-21' if k % 2 == 0 else 'j1939-22'
        x = rng.choice([0x41, 0x05, 0x7F, 0x90, 0xD3, rng.randrange(0, 248)])
        bypass = rng.random() < 0.5
        loses = k % 3 != 2
        name = (rng.getrandbits(62) | (1 << 61)) & ~(1 << 63)          # not arbitrary-address-capable: a loss ends in cannot-claim
        low = list((name & ((1 << 40) - 1)).to_bytes(8, 'little'))
        sa = (x + 0x31) % 0xFE
        script = [] if bypass else [dict(t=1000, s=0, op='ca_start', ca=0, delay=0)]
        script.append(dict(t=400000, s=0, op='ca_subscribe', ca=0, cid=5))
        inject = []
        if loses:
            inject.append(dict(t=500000, to=0, id=R.ref_can_id(6, 0xEEFF, x), data=low, via='listener'))
        fr = [f for f in frames_for(dll, x, sa) if f[0] in ('pdu1-app', 'pdu1-app-dp1', 'tp-rts', 'fd-rts', 'fd-multipg')]
        for i, f in enumerate(fr):
            inject.append(dict(t=1200000 + 1000 * i, to=0, id=f[1], data=f[2], fd=f[3], via='listener'))
        yield dict(stacks=[dict(dll=dll, max_cmdt=2, subs=[], cas=[dict(name=name, addr=x, bypass=bypass, subs=[], req=[])])], lat=[1], jit=[1],
                   script=script, inject=inject, horizon=1200000 + 3_000_000,
                   meta=dict(kind='late-subscriber', dest=x, sa=sa, loses=loses, bypass=bypass, shape=0, dll=dll, broadcast=False))


def removed_cases(rng, n):
    """a CA with listeners of its own that is taken out of the stack again (ecu.remove_ca): its address is nobody's from then on —
    frames to it are foreign traffic, whatever listeners the departed CA left behind"""
    for k in range(n):
        dll = 'j1939-21' if k % 2 == 0 else 'j1939-22'
        x = rng.choice([0x41, 0x10, 0x7F, 0x00, rng.randrange(0, 248)])
        sa = (x + 0x31) % 0xFE
        removed = k % 3 != 2
        script = [dict(t=400000, s=0, op='ca_subscribe', ca=0, cid=5)]
        if removed:
            script.append(dict(t=500000, s=0, op='remove_ca', addr=x))
        inject = []
        fr = [f for f in frames_for(dll, x, sa) if f[0] in ('pdu1-app', 'pdu1-app-dp1', 'tp-rts', 'fd-rts', 'fd-multipg')]
        for i, f in enumerate(fr):
            inject.append(dict(t=1200000 + 1000 * i, to=0, id=f[1], data=f[2], fd=f[3], via='listener'))
        yield dict(stacks=[dict(dll=dll, max_cmdt=2, subs=[], cas=[dict(name=rng.getrandbits(60), addr=x, bypass=True, subs=[6], req=[])])], lat=[1], jit=[1],
                   script=script, inject=inject, horizon=1200000 + 3_000_000, oracle_only=True,
                   meta=dict(kind='late-subscriber', dest=x, sa=sa, loses=removed, bypass=True, removed=removed, shape=0, dll=dll, broadcast=False))


TWO_CAS = dict(name='two-operational-cas', subs=[dict(cid=20, filt=None)],
               cas=[dict(name=21, addr=0x48, bypass=True, subs=[21], req=[22]), dict(name=22, addr=0x49, bypass=True, subs=[23], req=[24]),
                    dict(name=23, addr=0x4A, bypass=False, subs=[25], req=[26])])


def request_cases(dlls):
    """two operational CAs (and one that never claimed) on ONE ECU, each with its own request listeners: a request to one of
    them — for a parameter group or for the address-claim PGN — concerns that CA only; a global one concerns both"""
    for dll in dlls:
        for d in (0x48, 0x49, 0x4A, 0x4B, 0xFF):
            for what, data in (('pg', [0xCA, 0xFE, 0x00]), ('claim', [0x00, 0xEE, 0x00])):
                yield dict(stacks=[dict(dll=dll, max_cmdt=2, subs=TWO_CAS['subs'], cas=TWO_CAS['cas'])], lat=[1], jit=[1], script=[],
                           inject=[dict(t=1000, to=0, id=R.ref_can_id(6, 0xEA00 + d, 0x90), data=data, via='listener')], horizon=2_000_000,
                           meta=dict(kind='request-two-cas', what=what, dest=d, dll=dll, shape=0, broadcast=False))


def oracle_request(sc, res):
    m, v = sc['meta'], []
    d = m['dest']
    addressed = [c for c in TWO_CAS['cas'] if c['bypass'] and (d == 255 or c['addr'] == d)]
    reqs = sorted(e[3] for e in res.trace if e[2] == 'req')
    txs = [e for e in res.trace if e[2] == 'tx']
    if m['what'] == 'pg':
        exp = sorted(cid for c in addressed for cid in c['req'])
        if reqs != exp:
            v.append(dict(kind='request-handed-to-the-wrong-applications', meta=m, fired=reqs, expected=exp))
        if txs:
            v.append(dict(kind='request-answered-with-a-frame', meta=m, frames=[hex(e[3]) for e in txs]))
    else:
        if reqs:
            v.append(dict(kind='claim-request-handed-to-applications', meta=m, fired=reqs))
        got = sorted(e[3] & 0xFF for e in txs)
        exp = sorted(c['addr'] for c in addressed)
        if got != exp or any(((e[3] >> 8) & 0xFFFF) != 0xEEFF for e in txs):
            v.append(dict(kind='claim-request-answered-by-the-wrong-cas', meta=m, answered_from=got, expected=exp))
    if any(e[2] == 'cb' for e in res.trace):
        v.append(dict(kind='request-delivered-as-message', meta=m))
    for js in res.job:
        if js != 'alive':
            v.append(dict(kind='job-thread-' + js, meta=m))
    return v


def cmdt_pdu2_cases(dests):
    """a PDU2 parameter group (PF >= 240) transported in CONNECTION mode to one address: what is reassembled is addressed to
    that one node, like the connection that carried it"""
    for dll in ('j1939-21', 'j1939-22'):
        for si, shape in enumerate(SHAPES):
            for d in dests:
                sa = 0x90
                if dll == 'j1939-21':
                    inject = [dict(t=1000, to=0, id=R.ref_tp_cm_id(7, d, sa), data=R.ref_rts(20, 3, 255, 0xFECA), via='listener')]
                    for q in range(1, 4):
                        inject.append(dict(t=1000 + 20000 * q, to=0, id=R.ref_tp_dt_id(d, sa), data=[q] + [(q * 16 + i) & 0xFF for i in range(7)], via='listener'))
                else:
                    def cm(ctrl, sess, size, nseg, b7, b8, pgn):
                        return [ctrl | (sess << 4), size & 255, (size >> 8) & 255, (size >> 16) & 255, nseg & 255, (nseg >> 8) & 255, (nseg >> 16) & 255, b7, b8, pgn & 255, (pgn >> 8) & 255, (pgn >> 16) & 255]
                    cmid = R.ref_can_id(7, 0x4D00 + d, sa)
                    inject = [dict(t=1000, to=0, id=cmid, data=cm(0, 2, 70, 2, 255, 0, 0xFECA), fd=True, via='listener'),
                              dict(t=21000, to=0, id=R.ref_can_id(7, 0x4E00 + d, sa), data=[0x20, 1, 0, 0] + list(range(60)), fd=True, via='listener'),
                              dict(t=41000, to=0, id=R.ref_can_id(7, 0x4E00 + d, sa), data=[0x20, 2, 0, 0] + list(range(10)) + [255, 255], fd=True, via='listener'),
                              dict(t=61000, to=0, id=cmid, data=cm(2, 2, 70, 2, 0, 0, 0xFECA), fd=True, via='listener')]
                yield dict(stacks=[dict(dll=dll, max_cmdt=255, subs=shape['subs'], cas=shape['cas'])], lat=[1], jit=[1], script=[], inject=inject,
                           horizon=4_000_000, meta=dict(kind='cmdt-pdu2', shape=si, dest=d, dll=dll, broadcast=False))


def oracle_cmdt_pdu2(sc, res):
    m, v = sc['meta'], []
    shape = SHAPES[m['shape']]
    n = 20 if m['dll'] == 'j1939-21' else 70
    cbs = sorted(e[3] for e in res.trace if e[2] == 'cb' and len(e[7]) == n)
    exp = expected_cbs(shape, m['dest'], False)
    if cbs != exp:
        v.append(dict(kind='connection-mode-message-handed-to-the-wrong-listeners', meta=m, fired=cbs, expected=exp))
    if m['dest'] not in owned(shape) and any(e[2] == 'tx' for e in res.trace):
        v.append(dict(kind='foreign-frame-answered', meta=m))
    for js in res.job:
        if js != 'alive':
            v.append(dict(kind='job-thread-' + js, meta=m))
    return v


def sender_cases(rng, n):
    """the ECU has SENT connection-mode messages from an address it does not own (ecu.send_pgn with any source address; nobody
    answers, the transfer is abandoned) — that does not make the address its own: a later RTS / CTS / message for it is foreign"""
    for k in range(n):
        dll = 'j1939-21' if k % 3 != 2 else 'j1939-22'
        x = rng.choice([0x50, 0x00, 0xFD, rng.randrange(0, 254)])
        if x in (0x40, 0x43, 0x44):
            x = 0x51
        size = rng.choice([9, 20, 40]) if dll == 'j1939-21' else rng.choice([61, 130])
        script = [dict(t=1000, s=0, op='send', a=[0, 0xD0, 0x91, 6, x, dict(seed=rng.getrandbits(20), len=size)])]
        fr = [f for f in frames_for(dll, x, 0x91) if f[0] in ('pdu1-app', 'tp-rts', 'tp-cts', 'fd-rts', 'fd-cts', 'fd-multipg')]
        inject = [dict(t=5_000_000 + 1000 * i, to=0, id=f[1], data=f[2], fd=f[3], via='listener') for i, f in enumerate(fr)]
        yield dict(stacks=[dict(dll=dll, max_cmdt=2, subs=SHAPES[3]['subs'], cas=SHAPES[3]['cas'])], lat=[1], jit=[1], script=script, inject=inject,
                   horizon=9_000_000, meta=dict(kind='sent-from-unowned', dest=x, dll=dll, shape=3, broadcast=False))


def oracle_sender(sc, res):
    m, v = sc['meta'], []
    late = [e for e in res.trace if e[0] >= 5_000_000]
    if any(e[2] == 'tx' for e in late):
        e = [e for e in late if e[2] == 'tx'][0]
        v.append(dict(kind='foreign-frame-answered', meta=m, t=e[0], id=hex(e[3]), data=list(e[6])))
    if any(e[2] == 'cb' for e in late):
        v.append(dict(kind='foreign-frame-delivered', meta=m))
    if not all(res.empty):
        v.append(dict(kind='foreign-frame-left-state', meta=m))
    for js in res.job:
        if js != 'alive':
            v.append(dict(kind='job-thread-' + js, meta=m))
    return v


def oracle_late(sc, res):
    m = sc['meta']
    v = []
    cbs = [e for e in res.trace if e[2] == 'cb' and e[0] > 1100000]
    txs = [e for e in res.trace if e[2] == 'tx' and e[0] > 1100000]
    if m['loses']:
        if cbs:
            v.append(dict(kind='delivery-to-a-ca-that-lost-its-address', meta=m, t=cbs[0][0], cid=cbs[0][3], pgn=cbs[0][5]))
        if txs:
            v.append(dict(kind='frame-sent-for-an-address-no-longer-owned', meta=m, t=txs[0][0], id=hex(txs[0][3]), data=list(txs[0][6])))
    else:
        if not cbs:
            v.append(dict(kind='late-subscriber-of-an-operational-ca-got-nothing', meta=m))
    for js in res.job:
        if js != 'alive':
            v.append(dict(kind='job-thread-' + js, meta=m))
    return v


def oracle_leaver(sc, res):
    m = sc['meta']
    v = []
    for e in res.trace:
        if e[0] > m['t_leave']:
            if e[2] == 'tx':
                v.append(dict(kind='frame-sent-for-an-address-no-longer-owned', meta=m, t=e[0], id=hex(e[3]), data=list(e[6])))
                break
            if e[2] == 'cb':
                v.append(dict(kind='delivery-after-the-owner-left', meta=m, t=e[0], cid=e[3]))
                break
    for js in res.job:
        if js != 'alive':
            v.append(dict(kind='job-thread-' + js, meta=m))
    return v


def oracle(sc, res):
    m = sc.get('meta')
    if m is not None and m.get('kind') == 'owner-leaves':
        return oracle_leaver(sc, res)
    if m is not None and m.get('kind') == 'late-subscriber':
        return oracle_late(sc, res)
    if m is not None and m.get('kind') == 'request-two-cas':
        return oracle_request(sc, res)
    if m is not None and m.get('kind') == 'cmdt-pdu2':
        return oracle_cmdt_pdu2(sc, res)
    if m is not None and m.get('kind') == 'sent-from-unowned':
        return oracle_sender(sc, res)
    if m is None:
        return oracle_tp.check_exactly_once(sc, res) + bystander(sc, res)
    v = []
    shape = SHAPES[m['shape']]
    cbs = sorted(e[3] for e in res.trace if e[2] == 'cb')
    txs = [e for e in res.trace if e[2] == 'tx']
    if m['kind'] == 'flags':
        exp = expected_cbs(shape, 255, True) if (m['ext'] and not m['remote'] and not m['error']) else []
        if cbs != exp:
            v.append(dict(kind='listener-flag-filter', meta=m, fired=cbs, expected=exp))
        return v
    d = m['dest']
    accepted = m['broadcast'] or d == 255 or d in owned(shape)
    if m['kind'] in ('pdu1-app', 'pdu2'):
        exp = expected_cbs(shape, d, m['broadcast'])
        if cbs != exp:
            v.append(dict(kind='wrong-set-of-listeners', meta=m, fired=cbs, expected=exp))
    elif m['kind'] in ('fd-multipg', 'fd-multipg-pdu2'):
        exp = expected_cbs(shape, d, False)
        if cbs != exp:
            v.append(dict(kind='wrong-set-of-listeners', meta=m, fired=cbs, expected=exp))
    if not accepted:
        if cbs:
            v.append(dict(kind='foreign-frame-delivered', meta=m, fired=cbs))
        if txs:
            v.append(dict(kind='foreign-frame-answered', meta=m, frames=[hex(e[3]) for e in txs]))
        if not all(res.empty):
            v.append(dict(kind='foreign-frame-left-state', meta=m))
    if m['kind'] == 'request' and cbs:
        v.append(dict(kind='request-delivered-as-message', meta=m, fired=cbs))
    for j, js in enumerate(res.job):
        if js != 'alive':
            v.append(dict(kind='job-thread-' + js, meta=m))
    return v


def bystander(sc, res):
    """stacks that own neither end of any transfer must stay silent"""
    v = []
    involved = set()
    for ev, r in res.returns:
        if ev['op'] == 'send':
            involved.add(ev['s'])
            dp, pf, ps, prio, sa, pl = ev['a'][:6]
            d = oracle_tp.dest_of(pf, ps)
            for j in range(len(sc['stacks'])):
                if d != 255 and oracle_tp.owners(sc, j, d):
                    involved.add(j)
    for e in res.trace:
        if e[2] == 'tx' and e[1] not in involved:
            v.append(dict(kind='bystander-transmitted', stack=e[1], id=hex(e[3])))
            break
    return v


def gen_bystander(rng, k, dll):
    if dll == 'j1939-21':
        sc = gen_tp.gen_transfers(rng, ns=3, ntr=rng.randint(1, 3), reuse=0)
    else:
        sc = gen_tp.gen_transfers22(rng, ntr=rng.randint(1, 3))
    return sc


def run(out, tier, rng, work):
    import corr21
    out.rule = ('one-frame cases: every destination (quick: 40 incl. owned/global/boundaries; thorough: all 256) x frame kinds (application PDU1, '
                'PDU2, request, TP RTS/CTS/abort/EOMA/DT, FD.TP RTS/CTS/abort/EOMS/DT, multi-PG) x 4 stack shapes x both layers; all 16 '
                'can.Message flag combinations through the real MessageListener; bystander scenarios (third stack observing foreign '
                'transfers); oracle: fired callbacks == delivery rule, unaccepted frames cause no delivery / no frame / no state; J1939-21 '
                'handler logs replayed on the Coq model; non-trivial = the frame was dispatched (accepted) or a filter decision was exercised'
                ' Frames with data page 1 included.  Plus: requests to one of two operational CAs of one ECU (parameter group and address-claim PGN); a PDU2 parameter group carried in connection mode to one address; frames for an address the ECU has only ever SENT from.')
    out.assumptions = ['A1-A6 of DESIGN.md section 3']
    C.std_proof_stage(out, 'C05', FILES)
    dests = sorted(set([0, 1, 0x3F, 0x40, 0x41, 0x42, 0x43, 0x44, 0x45, 0x46, 0x47, 0x48, 0x7F, 0x80, 0xEA, 0xFD, 0xFE, 0xFF] + [rng.randrange(256) for _ in range(25)])) if tier == 'quick' else list(range(256))
    runs = []
    worst = {}
    for sc in list(one_frame_cases(['j1939-21', 'j1939-22'], dests)) + list(flag_cases(['j1939-21', 'j1939-22'])) + list(leaver_cases(rng, 60 if tier == 'quick' else 1500)) + list(late_cases(rng, 36 if tier == 'quick' else 600)) + list(request_cases(['j1939-21', 'j1939-22'])) + list(cmdt_pdu2_cases([0x40, 0x41, 0x44, 0x46, 0, 0x99] if tier == 'quick' else dests)) + list(sender_cases(rng, 12 if tier == 'quick' else 200)) + list(removed_cases(rng, 12 if tier == 'quick' else 200)):
        res = scen.run(sc)
        runs.append((sc, res))
        out.add_case(scen.sc_hash(sc), True, sample=sc['meta'] if len(out.samples) < 3 else None)
        for x in oracle(sc, res):
            if x['kind'] not in worst:
                worst[x['kind']] = (x, sc)
    nby = 20 if tier == 'quick' else 300
    for k in range(nby):
        sc = gen_bystander(rng, k, 'j1939-21' if k % 2 == 0 else 'j1939-22')
        res = scen.run(sc)
        runs.append((sc, res))
        out.add_case(scen.sc_hash(sc), True)
        for x in oracle(sc, res):
            if x['kind'] not in worst:
                worst[x['kind']] = (x, sc)
    sub = [r for r in runs if r[0]['stacks'][0].get('dll') == 'j1939-21' and not r[0].get('oracle_only')]
    step = max(1, len(sub) // (600 if tier == 'quick' else 6000))
    ntr, mism, errors = corr21.correspond(work, sub[::step], tag='c05')
    out.traces_validated = ntr
    for e in errors:
        out.broken.append('correspondence %s did not evaluate: %s' % (e[0], e[1][-300:].replace('\n', ' ')))
    for (k, j, g) in mism[:5]:
        out.broken.append('correspondence: model and implementation differ in case %s' % json.dumps(sub[::step][k][0].get('meta')))
    for kind, (x, sc) in worst.items():
        out.violation('%s: %s' % (kind, json.dumps(x, default=str)[:300]), dict(kind=kind), dict(broke='oracle', scenario=sc, violation=x))

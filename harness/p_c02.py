"""C02 — J1939-22 (FD) transport delivers every accepted message intact, exactly once; capacity 8 + 4."""
import json
import common as C
import sprop, gen_tp, oracle_tp, scen

FILES = ['theories/Base.v', 'theories/gen/Codec.v', 'theories/gen/Tp21Gen.v', 'theories/gen/CaGen.v', 'theories/gen/Tp22Gen.v', 'theories/CodecGlue.v',
         'theories/Model21.v', 'theories/Model22.v', 'theories/Replay21.v', 'theories/Replay22.v', 'proofs/CodecProofs.v', 'proofs/Flat.v',
         'proofs/MpgProofs.v', 'proofs/PoolProofs.v', 'proofs/Tp21Seg.v', 'proofs/Tp21Resp.v', 'proofs/TimeoutProofs.v', 'proofs/Tp22Proofs.v', 'proofs/Tp22Resp.v', 'proofs/ConserveProofs.v', 'proofs/FrameLocal22.v',
         'theories/SkelDefs.v', 'theories/FlowDefs.v', 'theories/gen/SkelGen.v', 'proofs/FlowProofs.v', 'proofs/OrderProofs.v',
         'proofs/Net21.v', 'proofs/Net21Proofs.v', 'proofs/Net22.v', 'proofs/Net22Proofs.v', 'proofs/Net22Bam.v', 'proofs/Net21Seq.v', 'proofs/Net22Seq.v', 'proofs/Tp21Orig.v']


def gen_capacity(rng):
    """one originator starts more sessions at one instant than the pools hold"""
    stacks, owned = gen_tp.mk_stacks(rng, 3, 'j1939-22')
    sa = owned[0][0]
    targets = [a for o in owned[1:] for a in o]
    script = []
    nr, nb = rng.randint(7, 11), rng.randint(3, 6)
    order = ['r'] * nr + ['b'] * nb
    rng.shuffle(order)
    t = 1000
    for kind in order:
        sz = rng.choice([61, 100, 121, 200])
        if kind == 'r':
            pf, ps = rng.randrange(0x50, 0xE0), rng.choice(targets)
        else:
            pf, ps = rng.randint(240, 255), rng.randrange(256)
        script.append(dict(t=t, s=0, op='send', a=[0, pf, ps, 6, sa, dict(seed=rng.getrandbits(30), len=sz)]))
    return dict(stacks=stacks, lat=[rng.choice([1, 500])], jit=[1], script=script, horizon=8_000_000, capacity=True)


def gen(rng, k):
    if k % 5 == 4:
        return gen_capacity(rng)
    return gen_tp.gen_transfers22(rng, big=(k % 12 == 0))


def oracle(sc, res):
    v = oracle_tp.check_exactly_once(sc, res)
    # capacity: at any instant at most 8 RTS/CTS and 4 BAM originator sessions per stack; a refusal emits nothing
    for ev, r in res.returns:
        if ev['op'] != 'send' or ev['a'][5]['len'] <= 60:
            continue
        if r not in (True, False):
            v.append(dict(kind='send-raised', ret=str(r)))
    if sc.get('capacity'):
        acc_r = acc_b = 0
        for ev, r in res.returns:
            bam = ev['a'][1] >= 240 or ev['a'][2] == 255
            if bam:
                want = acc_b < 4
                acc_b += 1 if r is True else 0
            else:
                want = acc_r < 8
                acc_r += 1 if r is True else 0
            if (r is True) != want:
                v.append(dict(kind='capacity-decision', bam=bam, accepted_before=(acc_b if bam else acc_r), returned=str(r)))
        # frames: refused calls must not have put anything on the bus: every TP.CM announce on the bus belongs to an accepted send
        ann = sum(1 for e in res.trace if e[2] == 'tx' and e[1] == 0 and ((e[3] >> 16) & 0xFF) == 0x4D and (e[6][0] & 0xF) in (0, 4))
        if ann != sum(1 for ev, r in res.returns if r is True):
            v.append(dict(kind='refused-send-emitted-frames', announcements=ann, accepted=sum(1 for ev, r in res.returns if r is True)))
    return v


def nontrivial(sc, res):
    return any(e[2] == 'tx' and ((e[3] >> 16) & 0xFF) in (0x4D, 0x4E) for e in res.trace)


def run(out, tier, rng, work):
    out.rule = ('2-3 real J1939-22 stacks under virtual time; 1..10 concurrent transfers (RTS/CTS and BAM) in both directions, sizes on all '
                'residues mod 60 in 61..20000, window pairs from {1,2,3,7,8,127,254,255,random}, latencies in (0, 5 ms]; every fifth scenario '
                'starts 7..11 RTS/CTS and 3..6 BAM sessions at one instant (capacity 8 + 4); oracle: exactly-once delivery, refusal exactly '
                'beyond capacity and without frames; every handler log replayed on the Coq model (Model22); non-trivial = FD.TP frames on the bus'
                ' Cyclic application timers on the ECUs in a quarter of the scenarios. Closed-loop correspondence of the FD network model (Net22.v) against two real FD stacks.')
    out.assumptions = ['A1-A6 of DESIGN.md section 3', 'the FD closed-loop theorem (T02.9) is for one RTS/CTS transfer between two otherwise idle nodes without pacing, under the schedule of Net22.v; any-schedule / many-transfer network theorems are not proved: covered by frame locality, the capacity invariants and the correspondence runs (testing)']
    sprop.run_stateful(out, 'C02', tier, rng, work, FILES, gen, oracle, 100, 1500, nontrivial,
                       sample=lambda sc, res: dict(capacity=sc.get('capacity', False), sends=[(e['a'][1], e['a'][2], e['a'][5]['len']) for e in sc['script'] if e['op'] == 'send'][:6],
                                                   returns=[r for ev, r in res.returns][:14]))
    # closed-loop correspondence: the FD network model (proofs/Net22.v: two model nodes on one bus) against two real FD stacks
    import netcorr
    n, mism, errors, bad = netcorr.run(work, rng, 10 if tier == 'quick' else 120, big=(tier != 'quick'), tag='c02net', only='fd')
    out.extra['closed_loop_cases'] = n
    out.traces_validated += n
    for c, sc, what in bad[:1]:
        out.violation(what, dict(kind='closed-loop-not-delivered'),
                      dict(broke='oracle', scenario=sc, violation=dict(kind='closed-loop-not-delivered', what=what), scenario_name='closed-loop',
                           how='./check replay <this file> re-runs the scenario on /repo and prints the oracle verdict'))
    for name, o in errors[:3]:
        out.broken.append('closed-loop correspondence %s did not evaluate: %s' % (name, o[-200:].replace('\n', ' ')))
    for c, i, m, im in mism[:3]:
        out.broken.append('closed-loop correspondence: FD network model and two real stacks differ (case %s) at observation %s: model %s / impl %s'
                          % (c, i, str(m)[:120], str(im)[:120]))

"""netcorr.py — closed-loop correspondence (C01, T01.8): the network of two model nodes (coq/proofs/Net21.v, the
object of theorem closed_loop_delivers) against two real stacks on the virtual bus.  Compared per case: the frames
A put on the wire (identifier, data) in order, the frames B put on the wire in order, the callbacks invoked on B."""
import common as C
import scen

HEADER = ('From J1939 Require Import Base CodecGlue Model21.\nFrom J1939.gen Require Import Codec Tp21Gen CaGen.\n'
          'From J1939P Require Import Flat Net21 Net21Bam.\nOpen Scope Z_scope.\nSet Warnings "-abstract-large-number".\n'
          'Definition fl (f : frame) : list Z := f_id f :: f_data f.\n'
          'Definition ol (o : out) : list Z := match o with OCb cid prio pgn sa d => cid :: prio :: pgn :: sa :: d | _ => [-1] end.\n'
          'Definition obs (s : net) : list (list Z) :=\n'
          '  map fl (wab s) ++ [[-2]] ++ map fl (wba s) ++ [[-2]] ++ map ol (evb s) ++ [[-2]] ++\n'
          '  [[if quiet s then 1 else 0]].\n')
HEADER22 = ('From J1939 Require Import Base CodecGlue Model21 Model22.\nFrom J1939.gen Require Import Codec Tp21Gen CaGen Tp22Gen.\n'
            'From J1939P Require Import Flat MpgProofs Net21 Net22 Net22Bam Net22Mpg.\nOpen Scope Z_scope.\nSet Warnings "-abstract-large-number".\n'
            'Definition fl (f : frame) : list Z := f_id f :: f_data f.\n'
            'Definition ol (o : out) : list Z := match o with OCb cid prio pgn sa d => cid :: prio :: pgn :: sa :: d | _ => [-1] end.\n'
            'Definition obs (s : net22) : list (list Z) :=\n'
            '  map fl (wab2 s) ++ [[-2]] ++ map fl (wba2 s) ++ [[-2]] ++ map ol (evb2 s) ++ [[-2]] ++\n'
            '  [[if quiet22 s then 1 else 0]].\n')
WINDOWS = [1, 2, 3, 7, 8, 127, 254, 255]
SIZES = [9, 14, 15, 16, 21, 22, 63, 64, 1784, 1785]


def gen_mpg(rng):
    """several parameter groups of 1..60 bytes with time limits, submitted at one instant to one destination, fitting one
    multi-PG frame (theorem C11_closed_loop_delivers_every_group)"""
    sa, da = rng.sample(range(0, 254), 2)
    groups, room = [], 64
    for j in range(rng.randint(1, 5)):
        mx = min(60, room - 4)
        if mx < 1:
            break
        n = rng.choice([1, mx, rng.randint(1, mx)])
        room -= 4 + n
        pf = rng.choice([x for x in range(0, 240) if x not in (0xEA, 0xEB, 0xEC, 0xEE, 0x4D, 0x4E, 0x25)])
        groups.append(dict(dp=rng.choice([0, 0, 1]), pf=pf, prio=rng.randint(0, 7), n=n, seed=rng.getrandbits(30),
                           tl=rng.choice([1000, 5000, 20000, 100000, rng.randint(1, 4_000_000)])))
    return dict(mpg=groups, sa=sa, da=da, n=sum(g['n'] for g in groups), fd=True, fnone=rng.random() < 0.3,
                wa=1, wb=1, lat=rng.choice([1, 500]), biv=None, dp=0, pf=0, prio=0, seed=0)


def gen_case(rng, k, big, only=None):
    if only == 'mpg':
        return gen_mpg(rng)
    n = rng.choice(SIZES) if rng.random() < 0.3 else rng.randint(9, 300 if big else 80)
    if not big and n > 400:
        n = rng.randint(9, 80)
    sa, da = rng.sample(range(0, 254), 2)
    pf = rng.choice([x for x in range(0, 240) if x not in (0xEA, 0xEB, 0xEC, 0xEE, 0x4D, 0x4E, 0x25)])
    fd = (rng.random() < 0.3) if only is None else (only in ('fd', 'bamfd'))      # the FD network model (Net22.v) against two real FD stacks
    if fd:
        n = rng.choice([61, 89, 105, 119, 120, 121, 180, 181]) if rng.random() < 0.4 else rng.randint(61, 1500 if big else 400)
    if not fd and rng.random() < 0.3:
        da = 255                      # broadcast (BAM): theorem C01_bam_closed_loop_delivers
        if n > 400:
            n = rng.randint(9, 120)
    if fd and rng.random() < 0.35:
        da = 255                      # FD broadcast: theorem C02_bam_closed_loop_delivers
    biv = None
    if only in ('bam21', 'bamfd'):
        # broadcasts only, with a configured packet interval in half the cases (theorems C09_*_closed_loop_paced)
        da = 255
        if not fd and n > 400:
            n = rng.randint(9, 120)
        biv = rng.choice([None, None, 0.01, 0.02, 0.05, 0.1, 0.19])
    ps = da
    if da == 255 and rng.random() < 0.4:
        # a PDU2 group (any group extension) travels as a broadcast as well: theorem C01_bam_closed_loop_delivers_pdu1_and_pdu2
        pf, ps = rng.randint(240, 255), rng.choice([0, 0xCA, 255, rng.randrange(256)])
    second = None
    if da != 255 and only != 'mpg' and rng.random() < 0.35:
        # a second transfer on the same pair once the first has completed (theorem C10_sequence_of_transfers_all_deliver)
        second = dict(n=(rng.choice([61, 120, 121]) if rng.random() < 0.3 else rng.randint(61, 300)) if fd else rng.choice(SIZES[:8]) if rng.random() < 0.3 else rng.randint(9, 80), dp=rng.choice([0, 1]), prio=rng.randint(0, 7),
                      pf=rng.choice([x for x in range(0, 240) if x not in (0xEA, 0xEB, 0xEC, 0xEE, 0x4D, 0x4E, 0x25)]), seed=rng.getrandbits(30))
    return dict(second=second, biv=biv, n=n, sa=sa, da=da, ps=ps, pf=pf, dp=rng.choice([0, 0, 1]), prio=rng.randint(0, 7),
                wa=rng.choice(WINDOWS + [rng.randint(1, 255)]), wb=rng.choice(WINDOWS + [rng.randint(1, 255)]),
                lat=rng.choice([1, 500]), seed=rng.getrandbits(30), fnone=rng.random() < 0.3, fd=fd)


def scenario(c):
    subs_b = [dict(cid=7, filt=(c['da'] if c['da'] != 255 else (c['sa'] + 1) % 254))] + ([dict(cid=9, filt=None)] if c['fnone'] else [])
    dll = 'j1939-22' if c.get('fd') else 'j1939-21'
    stacks = [dict(dll=dll, max_cmdt=c['wa'], bam_iv=c.get('biv'), subs=[dict(cid=1, filt=c['sa'])], cas=[]),
              dict(dll=dll, max_cmdt=c['wb'], subs=subs_b, cas=[])]
    if c.get('mpg'):
        script = [dict(t=1000, s=0, op='send', a=[g['dp'], g['pf'], c['da'], g['prio'], c['sa'], dict(seed=g['seed'], len=g['n']), g['tl'], 3])
                  for g in c['mpg']]
        return dict(stacks=stacks, lat=[c['lat']], jit=[1], script=script, horizon=1000 + min(g['tl'] for g in c['mpg']) + 3_000_000)
    npk = (c['n'] + 6) // 7
    script = [dict(t=1000, s=0, op='send', a=[c['dp'], c['pf'], c.get('ps', c['da']), c['prio'], c['sa'], dict(seed=c['seed'], len=c['n'])])]
    if c.get('second'):
        g = c['second']
        script.append(dict(t=1000 + npk * 12000 + 2_000_000, s=0, op='send', a=[g['dp'], g['pf'], c['da'], g['prio'], c['sa'], dict(seed=g['seed'], len=g['n'])]))
        return dict(stacks=stacks, lat=[c['lat']], jit=[1], script=script, horizon=1000 + npk * 12000 + 2_000_000 + ((g['n'] + 6) // 7) * 12000 + 3_000_000)
    return dict(stacks=stacks, lat=[c['lat']], jit=[1], script=script,
                horizon=1000 + npk * (int((c.get('biv') or 0.05) * 1e6) + 10000 if c['da'] == 255 else 12000) + 3_000_000)


def observe_impl(sc, res):
    wab, wba, evb = [], [], []
    for e in res.trace:
        if e[2] == 'tx':
            (wab if e[1] == 0 else wba).append([e[3]] + list(e[6]))
        elif e[2] == 'cb' and e[1] == 1:
            evb.append([e[3], e[4], e[5], e[6]] + list(e[7]))
    quiet = 1 if all(res.empty) else 0
    return wab + [[-2]] + wba + [[-2]] + evb + [[-2]] + [[quiet]]


def model_text(c, data, data2=None):
    biv = 'None' if c.get('biv') is None else '(Some %d)' % int(round(c['biv'] * 1e6))
    if c.get('fd'):
        a = 'sub22 (init_node22 %d None %s) 1 (FAddr %d)' % (c['wa'], biv, c['sa'])
        b = 'sub22 (init_node22 %d None None) 7 (FAddr %d)' % (c['wb'], c['da'] if c['da'] != 255 else (c['sa'] + 1) % 254)
        if c['fnone']:
            b = 'sub22 (%s) 9 FNone' % b
        if c.get('mpg'):
            gl = '; '.join('{| u_dp := %d; u_pf := %d; u_prio := %d; u_dat := %s; u_tl := %d |}' % (g['dp'], g['pf'], g['prio'], C.zl(d), g['tl'])
                           for g, d in zip(c['mpg'], data))
            s0 = '(fold_left (net22_submit %d %d) [%s] (net22_0 (%s) (%s) 1000))' % (c['sa'], c['da'], gl, a, b)
            return 'obs (steps22 5%%nat %s) ++ [[-3]] ++ [map fst (tlog22 5%%nat %s)]' % (s0, s0)
        nseg = (c['n'] + 59) // 60
        if c.get('second'):
            g = c['second']
            s0 = '(net22_send (net22_0 (%s) (%s) 1000) %d %d %d %d %d %s)' % (a, b, c['dp'], c['pf'], c['da'], c['prio'], c['sa'], C.zl(data))
            return ('obs (steps22 %d%%nat (net22_send (steps22 %d%%nat %s) %d %d %d %d %d %s))'
                    % (3 * ((g['n'] + 59) // 60) + 14, 3 * nseg + 14, s0, g['dp'], g['pf'], c['da'], g['prio'], c['sa'], C.zl(data2)))
        s0 = '(net22_send (net22_0 (%s) (%s) 1000) %d %d %d %d %d %s)' % (a, b, c['dp'], c['pf'], c.get('ps', c['da']), c['prio'], c['sa'], C.zl(data))
        timed = ' ++ [[-3]] ++ [map fst (tlog22 %d%%nat %s)]' % (3 * nseg + 14, s0) if c['da'] == 255 else ''
        return 'obs (steps22 %d%%nat %s)%s' % (3 * nseg + 14, s0, timed)
    a = 'subscribe (init_node %d None %s) 1 (FAddr %d)' % (c['wa'], biv, c['sa'])
    b = 'subscribe (init_node %d None None) 7 (FAddr %d)' % (c['wb'], c['da'] if c['da'] != 255 else (c['sa'] + 1) % 254)
    if c['fnone']:
        b = 'subscribe (%s) 9 FNone' % b
    npk = (c['n'] + 6) // 7
    fuel = 3 * npk + 12
    s0 = '(net_send (net0 (%s) (%s) 1000) %d %d %d %d %d %s)' % (a, b, c['dp'], c['pf'], c.get('ps', c['da']), c['prio'], c['sa'], C.zl(data))
    # broadcasts: the model's time of every frame after the announcement (theorems C09_bam_closed_loop_paced / C09_fd_...)
    timed = ' ++ [[-3]] ++ [map fst (tlog %d%%nat %s)]' % (fuel, s0) if c['da'] == 255 else ''
    if c.get('second'):
        g = c['second']
        return ('obs (steps %d%%nat (net_send (steps %d%%nat %s) %d %d %d %d %d %s))'
                % (3 * ((g['n'] + 6) // 7) + 12, fuel, s0, g['dp'], g['pf'], c['da'], g['prio'], c['sa'], C.zl(data2)))
    return 'obs (steps %d%%nat %s)%s' % (fuel, s0, timed)


def run(work, rng, n, big=False, tag='net', only=None):
    """returns (cases, mismatches[(case, model_obs, impl_obs)], errors, oracle_failures[(case, scenario, what)])"""
    cases, files, res_tx = [], [], {}
    for k in range(n):
        c = gen_case(rng, k, big, only)
        sc = scenario(c)
        res = scen.run(sc)
        data = list(scen.payload(sc['script'][0]['a'][5])) if not c.get('mpg') else [list(scen.payload(e['a'][5])) for e in sc['script']]
        impl = observe_impl(sc, res)
        cases.append((c, sc, impl, data))
        res_tx['%s_%d' % (tag, k)] = [e for e in res.trace if e[2] == 'tx' and e[1] == 0]
        data2 = list(scen.payload(sc['script'][1]['a'][5])) if c.get('second') else None
        files.append(('%s_%d' % (tag, k), (HEADER22 if c.get('fd') else HEADER) + 'Eval vm_compute in %s.\n' % model_text(c, data, data2)))
    out = C.run_many_cases(work, files, timeout=300, par=12)
    mism, errors, bad = [], [], []
    for (name, _), (c, sc, impl, data) in zip(files, cases):
        data2 = list(scen.payload(sc['script'][1]['a'][5])) if c.get('second') else None
        # the oracle on the implementation alone: p delivered exactly once to each subscriber of B, nothing left over
        cbs = [x for x in impl[impl.index([-2], impl.index([-2]) + 1) + 1:-2]]
        want = 2 if c['fnone'] else 1
        if c.get('mpg'):
            # every group once per subscriber, in submission order, with its own PGN
            exp = [x for g, d in zip(c['mpg'], data) for x in [(g['dp'] * 65536 + g['pf'] * 256, d)] * want]
            if [(x[2], x[4:]) for x in cbs] != exp or impl[-1] != [1]:
                bad.append((c, sc, 'multi-PG closed loop on the implementation: callbacks on B %s, expected every group once per listener in order'
                            % str([(x[2], len(x) - 4) for x in cbs])[:200]))
        elif c.get('second'):
            if [x[4:] for x in cbs] != [data] * want + [data2] * want or impl[-1] != [1]:
                bad.append((c, sc, 'two transfers in sequence on the implementation: %d callbacks on B (expected %d with the first payload, then %d with the second), tables empty=%s'
                            % (len(cbs), want, want, impl[-1])))
        elif len(cbs) != want or any(x[4:] != data for x in cbs) or impl[-1] != [1]:
            bad.append((c, sc, 'closed loop on the implementation: %d callbacks on B (expected %d with the payload), tables empty=%s'
                        % (len(cbs), want, impl[-1])))
        rc, o = out[name]
        if rc != 0:
            errors.append((name, o[-400:]))
            continue
        got = C.parse_list_list(o)
        if got is None:
            errors.append((name, 'unparsable: ' + o[-300:]))
            continue
        if [-3] in got:
            # timed part: frame k+1 of A left, on the implementation, no earlier than the model's time for it and no later
            # than that plus the scheduling jitter accumulated over k+1 wake-ups
            stamps = got[got.index([-3]) + 1]
            got = got[:got.index([-3])]
            J = max(sc['jit'])
            txt = [e[0] for e in res_tx[name]][0 if c.get('mpg') else 1:]
            late = [(k, m, t) for k, (m, t) in enumerate(zip(stamps, txt)) if not (0 <= t - m <= (k + 1) * (J + 1))]
            if len(stamps) != len(txt) or late:
                mism.append((c, 'timed', stamps[:8], txt[:8]))
                continue
        if got != impl:
            i = next((j for j in range(max(len(got), len(impl))) if j >= len(got) or j >= len(impl) or got[j] != impl[j]), None)
            mism.append((c, i, got[i] if i is not None and i < len(got) else None, impl[i] if i is not None and i < len(impl) else None))
    return len(cases), mism, errors, bad

"""gen_ca.py — scenario generators for the controller-application properties (C04, C13, C14)."""

IMMEDIATE = list(range(0, 128)) + list(range(248, 254))
VETO = list(range(128, 244))            # room left below 247 for every possible loss (<= 4 CAs)
DELAYS = [0, 1000, 100000, 240000, 250000, 260000, 500000, 900000]
STARTS = [1000, 1001, 50000, 240000, 251000, 400000, 760000, 1500000]


def mk_name(rng, aac, base=None):
    v = rng.getrandbits(63) if base is None else base
    v &= ~(1 << 48)
    v &= (1 << 63) - 1
    if aac:
        v |= 1 << 63
    return v


def gen_claim(rng, ncas=None, lat=None, one_per_stack=True):
    n = ncas or rng.choice([2, 2, 3, 3, 4])
    mode = rng.choice(['equal', 'equal', 'adjacent', 'distinct', 'mixed'])
    rngset = rng.choice([IMMEDIATE, VETO, VETO])
    base = rng.choice(rngset[:-6] if len(rngset) > 8 else rngset)
    if rng.random() < 0.1:
        base = 0                          # address 0 is an address like any other
    fd_all = rng.random() < 0.25          # the same claim procedure runs on the FD data link layer
    stacks = []
    script = []
    names = set()
    for i in range(n):
        aac = rng.random() < 0.6
        while True:
            # names: random, or close together (differ in one low bit) to stress the comparison
            r = rng.random()
            if r < 0.6:
                nm = mk_name(rng, aac, None)
            elif r < 0.8:
                nm = mk_name(rng, aac, 0x1234567800000000 + rng.randint(0, 3))
            else:
                # ... or differing from the others in ONE field only, whichever (identity number 0, manufacturer code 21, ECU instance
                # 32, function instance 35, function 40, vehicle system 49, vehicle system instance 56, industry group 60)
                nm = mk_name(rng, aac, 0x1234567800000000 ^ (1 << rng.choice([0, 21, 32, 33, 35, 40, 49, 56, 60])))
            if nm not in names:
                names.add(nm)
                break
        if mode == 'equal':
            pref = base
        elif mode == 'adjacent':
            pref = base + (i % 2)
        elif mode == 'distinct':
            pref = base + i
        else:
            pref = rng.choice([base, base, base + 1, rng.choice(IMMEDIATE), rng.choice(VETO)])
        cid = 10 * i + 1
        sd = dict(dll='j1939-22' if fd_all else 'j1939-21', max_cmdt=1, subs=[],
                  cas=[dict(name=nm, addr=pref, bypass=False, subs=[cid], req=[cid + 1])])
        stacks.append(sd)
        script.append(dict(t=rng.choice(STARTS), s=i, op='ca_start', ca=0, delay=rng.choice(DELAYS)))
    script.sort(key=lambda e: e['t'])
    lat = lat or [rng.choice([0, 1, 5000]) for _ in range(rng.choice([1, 2, 3]))]
    horizon = max(e['t'] + e['delay'] for e in script) + 4_000_000
    return dict(stacks=stacks, lat=lat, jit=[rng.choice([1, 1000])], script=script, horizon=horizon)


def gen_late_third(rng):
    """B (arbitrary address capable) is operational on X, loses X to A (lower NAME) and announces X+1; while B waits for vetoes on
    X+1 a third CA claims X+1 — 260..480 ms after B's announcement, i.e. later than the 250 ms after which B could already be
    operational but possibly before B's claim timer has looked: whoever has the lower NAME keeps X+1, the other moves or gives up"""
    X = rng.choice(VETO[:100])
    nb = mk_name(rng, True, None) | (1 << 50)
    na = (nb - (1 << 50) + rng.randint(0, 1000)) & ~(1 << 48)
    c_lower = rng.random() < 0.5
    c_aac = rng.random() < 0.5
    nc = mk_name(rng, c_aac, None)
    nc = ((nc & ~(0xFFFF << 40)) | ((nb >> 40 & 0xFFFF) + (-3 if c_lower else 3)) << 40) & ((1 << 63) - 1) | ((1 << 63) if c_aac else 0)
    if (nc & ~(1 << 48)) == (nb & ~(1 << 48)):
        nc ^= 1
    ta = rng.choice([700_000, 830_000, 960_000])
    d = rng.choice([260_000, 300_000, 350_000, 400_000, 450_000, 480_000])
    stacks = [dict(dll='j1939-21', max_cmdt=1, subs=[], cas=[dict(name=nb, addr=X, bypass=False, subs=[1], req=[2])]),
              dict(dll='j1939-21', max_cmdt=1, subs=[], cas=[dict(name=na, addr=X, bypass=False, subs=[11], req=[12])]),
              dict(dll='j1939-21', max_cmdt=1, subs=[], cas=[dict(name=nc, addr=X + 1, bypass=False, subs=[21], req=[22])])]
    script = [dict(t=1000, s=0, op='ca_start', ca=0, delay=0), dict(t=ta, s=1, op='ca_start', ca=0, delay=0), dict(t=ta + d, s=2, op='ca_start', ca=0, delay=0)]
    return dict(stacks=stacks, lat=[rng.choice([1, 500])], jit=[1], script=script, horizon=ta + d + 4_000_000)

"""tpconf.py — a real stack against the active reference peer (peer.py): scenario runner and the wire-level
oracles of C03 (interoperability) and C09 (flow control / pacing)."""
import scen, stack as S, vts, peer as P, refpeer as R
from scen import payload

STACK_ADDR, PEER_ADDR = 0x20, 0x30
OTHER_ADDR = 0x21        # a second address of the stack's ECU (prior_from)
FD_LAST = [29, 45, 4, 5, 8, 9, 12, 13, 16, 17, 20, 21, 28, 44, 1, 59, 60]


def gen(rng, k, dll=None, big=False, presend=False, sync_paced=False):
    forced = dll is not None
    dll = dll or rng.choice(['j1939-21', 'j1939-22'])
    if not forced and k % 4 == 0:
        dll = 'j1939-22'              # every fourth scenario is FD with a last segment at a CAN-FD length step (below)
    fd = dll != 'j1939-21'
    role = rng.choice(['stack-originator', 'stack-responder'])
    bam = rng.random() < 0.3
    unit = 60 if fd else 7
    if fd:
        size = rng.choice([61, 119, 120, 121, 180, 181, rng.randint(61, 900)]) if not big else rng.randint(900, 20000)
        if not big and k % 4 == 0:
            # payload of the last segment on both sides of every CAN-FD length step (frame = 4 header bytes + payload:
            # 8|9, 12|13, 16|17, 20|21, 24|25, 32|33, 48|49, 64) and the extremes
            size = 60 * rng.randint(1, 4) + FD_LAST[(k // 4) % len(FD_LAST)]
    else:
        size = rng.choice([9, 13, 14, 15, 21, 22, rng.randint(9, 250)]) if not big else rng.choice([1784, 1785, 1785, 1779, rng.randint(250, 1785)])
    if k % 50 == 10 and not forced:
        # the FD size field has three bytes: a message of 65536 bytes or more, the stack receiving it
        dll, fd, unit = 'j1939-22', True, 60
        size = 65536 + rng.randint(0, 200)
        role = 'stack-responder'
    if k % 25 == 3 and not forced:
        # the largest J1939-21 message there is (1785 bytes = 255 packets), the stack receiving it: connection mode and broadcast in turn
        dll, fd, unit = 'j1939-21', False, 7
        size, role, bam = 1785, 'stack-responder', (k % 50 == 3)
    directed_grant = (not fd) and (not big) and k % 4 == 1 and size != 1785
    if directed_grant:
        # the stack as responder of a message whose size is a multiple of 7 (and of one that is not), with a window that
        # leaves a partial last window: the follow-up CTS must grant exactly what remains
        size = 7 * rng.randint(2, 12) - rng.choice([0, 0, 0, 1, 6])
        role, bam = 'stack-responder', False
    n = (size + unit - 1) // unit
    max_cmdt = rng.choice([1, 2, 3, 7, 8, 127, 254, 255, rng.randint(1, 255)])
    if directed_grant:
        max_cmdt = rng.choice([2, 3, 4, 5])
    cmdt_iv = rng.choice([None, None, None, 0.001, 0.005, 0.02, 0.05])
    bam_iv = rng.choice([None, None, 0.01, 0.05, 0.1, 0.19, rng.randint(10, 190) / 1000, rng.choice([43, 51, 59, 71, 86, 102, 113, 139]) / 1000])   # any whole number of milliseconds
    if k % 15 == 2 and not forced and not directed_grant and size != 1785:
        # a broadcast of the stack with a configured packet interval of some whole number of milliseconds (values whose binary
        # fraction lies just below the decimal one among them): the packets are at least that far apart
        role, bam = 'stack-originator', True
        bam_iv = rng.choice([43, 51, 59, 71, 86, 102, 113, 139, rng.randint(10, 190)]) / 1000
    pf = rng.choice([x for x in range(0, 240) if x not in (0xEA, 0xEB, 0xEC, 0xEE, 0x4D, 0x4E, 0x25)])
    if bam and rng.random() < 0.5:
        pf = rng.randint(240, 255)
    ps = 255 if bam and pf < 240 else (rng.randrange(256) if pf >= 240 else None)
    dp = rng.choice([0, 0, 1])
    windows = [rng.choice([1, 1, 2, 3, 5, 8, 255, rng.randint(1, 255)]) for _ in range(rng.choice([1, 2, 3]))]
    holds = [rng.choice([0, 0, 0, 1, 2, 3]) for _ in range(rng.choice([1, 2]))]
    plan = dict(fd=fd, windows=windows, holds=holds if not fd else [0], hold_gap=rng.choice([1000, 100000, 400000]),
                reply_delay=rng.choice([0, 1000, 50000, 150000]), dt_gap=rng.choice([500, 1000, 20000, 150000]),
                limit=rng.choice([1, 2, 3, 8, 255, rng.randint(1, 255)]), session=rng.randint(0, 7 if not bam else 3), prio=rng.randint(0, 7))
    if directed_grant:
        plan['limit'] = 255
    if bam and role == 'stack-responder':
        plan['dt_gap'] = rng.choice([50000, 100000, 190000]) if not fd else rng.choice([10000, 50000, 190000])
    sc = dict(kind='tpconf', dll=dll, role=role, bam=bam, size=size, seed=rng.getrandbits(30), max_cmdt=max_cmdt, cmdt_iv=cmdt_iv, bam_iv=bam_iv,
              dp=dp, pf=pf, ps=ps, prio=rng.randint(0, 7), plan=plan, lat=[rng.choice([1, 500, 5000])], jit=[rng.choice([1, 1000])])
    if rng.random() < 0.3:
        sc['reuse_buffers'] = True       # the application uses its payload list again as soon as send_pgn has returned
    if rng.random() < 0.3:
        # cyclic application timers on the same ECU (periods above and below the 200 ms a broadcast may pause)
        sc['app_timers'] = [rng.choice([120000, 230000, 500000, 1000000]) for _ in range(rng.choice([1, 1, 2]))]
    if presend and fd and role == 'stack-originator' and not bam and rng.random() < 0.5:
        # the stack has other FD transfers open (to addresses nobody owns; they time out) when it starts this one, so this
        # one runs under a session number other than 0: every frame of it must carry that number
        sc['presend'] = rng.choice([1, 2, 3, 7])
    if k % 9 == 5 and not forced and not big and not directed_grant and size != 1785 and size < 65536:
        # a responder that SHRINKS its grants during the transfer (4, 2, 3, 1, ...) while more packets remain: every window is the
        # one of its own clear-to-send
        sc['role'], sc['bam'] = role, bam = 'stack-originator', False
        plan['windows'] = rng.choice([[4, 2, 3, 1], [5, 1, 2], [3, 2, 1], [8, 3]])
        plan['holds'] = [0]
        sc['max_cmdt'] = max_cmdt = rng.choice([255, 8, rng.randint(8, 255)])
        sc['size'] = size = unit * rng.randint(14, 22) - rng.randint(0, unit - 1)
        n = (size + unit - 1) // unit
        if sc['pf'] >= 240:
            sc['pf'], sc['ps'] = 0xD0, None
        sc['ps'] = None
    if presend and role == 'stack-originator' and 'presend' not in sc and rng.random() < 0.3:
        # the ECU has just sent a multi-packet message of the same kind to the same destination from ANOTHER of its addresses
        # (completed before this one starts): every frame of this one carries this one's source address
        sc['prior_from'] = dict(size=(rng.randint(61, 130) if fd else rng.randint(9, 30)), seed=rng.getrandbits(30))
    if sync_paced and not bam and not big and size != 1785 and not (fd and size > 60000):
        # ... the same with a configured minimum interval between connection-mode packets: it holds across the windows as well
        role = sc['role'] = 'stack-originator'
        cmdt_iv = sc['cmdt_iv'] = rng.choice([0.005, 0.02, 0.05])
    if (sync_paced and role == 'stack-originator' and not bam) or (presend and role == 'stack-originator' and not bam and 'prior_from' not in sc and rng.random() < 0.3):
        # a responder that answers inside the stack's own send call (zero bus latency, zero reply delay): its clear-to-send
        # for the next window is handled before the call that handed over the last packet of the window has returned
        sc['lat'] = [0]
        plan['reply_delay'] = 0
        plan['holds'] = [0]
        plan['sync'] = True
        plan['windows'] = [rng.choice([2, 3, 4]), rng.choice([2, 3, 5])]
        sc['max_cmdt'] = max_cmdt = rng.choice([8, 255, rng.randint(5, 255)])
        if n < 5:
            sc['size'] = size = unit * rng.randint(5, 9) - rng.randint(0, unit - 1)
            n = (size + unit - 1) // unit
    if presend and fd and role == 'stack-originator' and not bam and 'prior_from' not in sc and not plan.get('sync') and not big and k % 3 == 0:
        # the application submits its NEXT message (same group, same size, other bytes) to the same responder as soon as the
        # end-of-message status of the first has gone out — the responder acknowledges 150 ms later, while the second transfer
        # is under way: the reference decoder gets both, each intact
        sc['followup'] = True
        if sc.get('presend', 0) > 5:
            sc['presend'] = 5                # (leave a session number for it: 8 in all)
        plan['reply_delay'] = 150000
        plan['windows'] = windows = [rng.choice([1, 2])]
        if n < 4:
            sc['size'] = size = unit * rng.randint(4, 7) - rng.randint(0, unit - 1)
            n = (size + unit - 1) // unit
    biv = bam_iv if bam_iv is not None else (0.05 if not fd else 0.01)
    wmin = max(1, min(min(windows), max_cmdt or 255, plan['limit']))     # the RTS limit (either side's) clips every window
    nwin = (n + wmin - 1) // wmin
    dur = n * (max(int(biv * 1e6), plan['dt_gap'], int((cmdt_iv or 0) * 1e6)) + 12000) \
        + nwin * (plan['reply_delay'] + (max(holds) + 1) * plan['hold_gap'] + 20000) + 5_000_000
    if sc.get('followup'):
        dur = 2 * dur
    if 'prior_from' in sc:
        dur += 3 * (max(int(biv * 1e6), int((cmdt_iv or 0) * 1e6)) + 12000) + 3 * (plan['reply_delay'] + (max(holds) + 1) * plan['hold_gap'] + 20000) + 1_000_000
    sc['horizon'] = min(dur, 400_000_000)
    return sc


def runner(sc):
    sim = vts.Sim(jitters=sc.get('jit', [1]))
    lat = sc.get('lat', [1])
    sim.latency = lambda c, src, dst: lat[c % len(lat)]
    sim.reuse_buffers = bool(sc.get('reuse_buffers'))
    res = scen.Result()
    res.sc = sc
    try:
        st = S.Stack(sim, sc['dll'], sc['max_cmdt'], sc['cmdt_iv'], sc['bam_iv'])
        cb = st.cb(1, 'sub')
        st.subscribe(cb, STACK_ADDR)
        for i, per in enumerate(sc.get('app_timers', [])):
            st.add_timer(per / 1e6, st.cb(700 + i, 'timer', ret=True), None)
        data = scen.lcg_bytes(sc['seed'], sc['size'])
        pgn_sent = (sc['dp'] << 16) | (sc['pf'] << 8) | (sc['ps'] if sc['pf'] >= 240 else 0)
        plan = dict(sc['plan'])
        pr = P.RefPeer(sim, PEER_ADDR, plan)
        res.ret = None
        if sc['role'] == 'stack-originator':
            ps = sc['ps'] if sc['ps'] is not None else PEER_ADDR

            def go():
                for i in range(sc.get('presend', 0)):
                    st.send_pgn(0, 0xD0, 0x50 + i, 6, STACK_ADDR, scen.lcg_bytes(sc['seed'] + 1 + i, 61 + i))
                res.ret = st.send_pgn(sc['dp'], sc['pf'], ps, sc['prio'], STACK_ADDR, data)
            if 'prior_from' in sc:
                st.subscribe(st.cb(2, 'sub'), OTHER_ADDR)
                res.prior = scen.lcg_bytes(sc['prior_from']['seed'], sc['prior_from']['size'])

                def prior():
                    res.prior_ret = st.send_pgn(sc['dp'], sc['pf'], ps, sc['prio'], OTHER_ADDR, list(res.prior))
                    sim.at(sim.now + 20000, poll)

                def poll():
                    if st.tables_empty() and pr.rx is None:
                        go()
                    else:
                        sim.at(sim.now + 20000, poll)
                sim.at(1000, prior)
            else:
                sim.at(1000, go)
            if sc.get('followup'):
                res.follow = [x ^ 0x5A for x in data]

                def watch():
                    if pr.delivered:
                        res.follow_ret = st.send_pgn(sc['dp'], sc['pf'], ps, sc['prio'], STACK_ADDR, list(res.follow))
                    else:
                        sim.at(sim.now + 300, watch)
                sim.at(1200, watch)
        else:
            plan['payload'] = data
            plan['dest'] = 255 if sc['bam'] else STACK_ADDR
            plan['pgn'] = pgn_sent
            sim.at(1000, pr.start_originator22 if plan['fd'] else pr.start_originator)
        sim.run_until(sc['horizon'])
        res.trace = list(sim.trace)
        res.peer = dict(delivered=pr.delivered, acks=pr.acks, aborts=pr.aborts, log=pr.log)
        res.data = data
        res.pgn = pgn_sent
        res.job = [st.job_state()]
        res.empty = [st.tables_empty()]
        res.outs = [list(st.outs)]
        res.oplog = [list(st.oplog)]
        res.end = sim.now
    finally:
        sim.close()
    return res


def scen_for_corr(sc):
    """the stacks list corr21 needs"""
    return dict(stacks=[dict(dll=sc['dll'], max_cmdt=sc['max_cmdt'], cmdt_iv=sc['cmdt_iv'], bam_iv=sc['bam_iv'])])


def stack_frames(res, fd):
    out = []
    for e in res.trace:
        if e[2] == 'tx' and e[1] == 0:
            out.append(e)
    return out


def oracle_c03(sc, res):
    v = []
    fd = sc['dll'] != 'j1939-21'
    data, pgn = res.data, res.pgn
    unit = 60 if fd else 7
    n = (len(data) + unit - 1) // unit
    legal = set(P.FD_LEN)
    frames = stack_frames(res, fd)
    for e in frames:
        if fd and len(e[6]) not in legal:
            v.append(dict(kind='illegal-fd-length', length=len(e[6])))
        if not fd and len(e[6]) != 8:
            v.append(dict(kind='tp-frame-not-8-bytes', length=len(e[6])))
        if e[4] is not True or e[5] != fd:
            v.append(dict(kind='frame-format', ext=e[4], fd=e[5]))
    if sc['role'] == 'stack-originator':
        if res.ret is not True:
            v.append(dict(kind='send-refused', ret=str(res.ret)))
            return v
        dl = [d for d in res.peer['delivered'] if d['sa'] != OTHER_ADDR]
        if 'prior_from' in sc:
            pd = [d for d in res.peer['delivered'] if d['sa'] == OTHER_ADDR]
            if getattr(res, 'prior_ret', None) is not True or len(pd) != 1 or pd[0]['data'] != res.prior:
                v.append(dict(kind='reference-decoder-did-not-get-the-earlier-message-from-the-other-address', n=len(pd), ret=str(getattr(res, 'prior_ret', None))))
        if sc.get('followup'):
            if getattr(res, 'follow_ret', None) is not True:
                v.append(dict(kind='message-submitted-before-the-acknowledgement-refused', ret=str(getattr(res, 'follow_ret', None))))
            elif len(dl) != 2 or dl[1]['data'] != res.follow or dl[1]['pgn'] != pgn:
                v.append(dict(kind='reference-decoder-did-not-get-the-message-submitted-before-the-acknowledgement-of-the-one-before',
                              n=len(dl), aborts=res.peer['aborts'][:2]))
            dl = dl[:1]
        if len(dl) != 1:
            v.append(dict(kind='reference-decoder-did-not-get-the-message', n=len(dl), log=res.peer['log'][:3], aborts=res.peer['aborts'][:2]))
        else:
            d = dl[0]
            if d['data'] != data:
                v.append(dict(kind='decoded-payload-differs', got=d['data'][:12], expected=data[:12]))
            if d['pgn'] != pgn:
                v.append(dict(kind='decoded-pgn-differs', got=d['pgn'], expected=pgn))
            if d['sa'] != STACK_ADDR:
                v.append(dict(kind='decoded-source-differs', got=d['sa']))
            if any(x != 0xFF for x in d['pad']):
                v.append(dict(kind='padding-not-0xFF', pad=d['pad']))
        if res.peer['log']:
            v.append(dict(kind='sequence-numbers-not-in-order', log=res.peer['log'][:3]))
        # announcement fields
        for e in frames:
            prio_, pg, sa = R.ref_parse_id(e[3])
            pf = (pg >> 8) & 0xFF
            if sa == OTHER_ADDR:
                continue           # the earlier message from the ECU's other address
            if not fd and pf == 0xEC and e[6][0] in (16, 32):
                m = R.ref_decode_cm(list(e[6]))
                lim_ok = m['kind'] == 'BAM' or m['limit'] == min(sc['max_cmdt'], n)
                if m['size'] != len(data) or m['n'] != n or m['pgn'] != pgn or not lim_ok:
                    v.append(dict(kind='announcement-fields', got=m, expected=dict(size=len(data), n=n, pgn=pgn, limit=min(sc['max_cmdt'], n))))
                if m['kind'] == 'BAM' and e[6][4] != 0xFF:
                    v.append(dict(kind='bam-reserved-byte', got=e[6][4]))
                if prio_ != sc['prio']:
                    # the announcement is what carries the message's priority to the receivers (identifier field)
                    v.append(dict(kind='announcement-priority', got=prio_, expected=sc['prio']))
            if fd and pf == 0x4D and (e[6][0] & 0xF) in (0, 4, 2) and (pg & 0xFF) in (PEER_ADDR, 255):
                d = e[6]
                size = d[1] | (d[2] << 8) | (d[3] << 16)
                ns = d[4] | (d[5] << 8) | (d[6] << 16)
                pg2 = d[9] | (d[10] << 8) | (d[11] << 16)
                if size != len(data) or ns != n or pg2 != pgn:
                    v.append(dict(kind='announcement-fields', got=dict(size=size, n=ns, pgn=pg2), expected=dict(size=len(data), n=n, pgn=pgn)))
                if (d[0] & 0xF) in (0, 4) and prio_ != sc['prio']:      # RTS, BAM
                    v.append(dict(kind='announcement-priority', got=prio_, expected=sc['prio']))
                if (d[0] & 0xF) == 0 and d[7] != min(sc['max_cmdt'], n, 255):
                    v.append(dict(kind='announcement-fields', got=dict(limit=d[7]), expected=dict(limit=min(sc['max_cmdt'], n))))
        if not sc['bam'] and not fd and len(dl) == 1:
            ack = R.ref_eom_ack(len(data), n, pgn)
            if not any(e[2] == 'cb' and e[1] == 0 and list(e[7]) == ack for e in res.trace):
                v.append(dict(kind='end-of-message-ack-not-reported-to-originator'))
    else:
        got = [e for e in res.trace if e[2] == 'cb' and e[1] == 0 and len(e[7]) == len(data)]
        if len(got) != 1 or list(got[0][7]) != data or got[0][5] != pgn or got[0][6] != PEER_ADDR:
            v.append(dict(kind='stack-did-not-decode-the-message', n=len(got), pgn=(got[0][5] if got else None), expected_pgn=pgn))
        if not sc['bam']:
            if len(res.peer['acks']) != 1:
                v.append(dict(kind='end-of-message-ack-missing', acks=len(res.peer['acks']), aborts=res.peer['aborts'][:2]))
            else:
                a = res.peer['acks'][0][1]
                if a['size'] != len(data) or a['n'] != n or a['pgn'] != pgn:
                    v.append(dict(kind='end-of-message-ack-fields', got=a))
        else:
            if frames:
                v.append(dict(kind='frame-sent-in-answer-to-broadcast', id=hex(frames[0][3])))
    if res.job != ['alive']:
        v.append(dict(kind='job-thread-' + res.job[0]))
    if not all(res.empty):
        v.append(dict(kind='session-left'))
    # 'acknowledged as the standard requires ... whichever legal choices the peer makes: ... its own window limit announced in
    # the RTS': the CTS frames the stack answers with are part of that
    v += [x for x in oracle_c09(sc, res) if x['kind'] in ('over-grant', 'cts-next-packet-number', 'zero-grant-without-hold')]
    return v


def oracle_c09(sc, res):
    v = []
    fd = sc['dll'] != 'j1939-21'
    unit = 60 if fd else 7
    n = (sc['size'] + unit - 1) // unit
    J = max(sc['jit'])
    cm_pf, dt_pf = (0x4D, 0x4E) if fd else (0xEC, 0xEB)
    ev = []
    for e in res.trace:
        if e[2] != 'tx':
            continue
        pf = (R.ref_parse_id(e[3])[1] >> 8) & 0xFF
        if pf in (cm_pf, dt_pf):
            ev.append((e[0], e[1], pf, list(e[6])))
    if sc['role'] == 'stack-originator' and not sc['bam']:
        # flow control: DTs from the stack only inside the window opened by the peer's last CTS
        allowed = 0
        nxt = None
        last_dt = None
        for t, who, pf, d in ev:
            if who != 0 and pf == cm_pf:
                ctrl = (d[0] & 0xF) if fd else d[0]
                if (fd and ctrl == 1) or (not fd and ctrl == 17):
                    g = d[7] if fd else d[1]
                    s = (d[4] | (d[5] << 8) | (d[6] << 16)) if fd else d[2]
                    # the peer's CTS takes effect when the stack has received it; conservatively from now on
                    allowed = g
                    nxt = s
            elif who == 0 and pf == dt_pf:
                seq = (d[1] | (d[2] << 8) | (d[3] << 16)) if fd else d[0]
                if allowed <= 0:
                    v.append(dict(kind='dt-without-clearance', t=t, seq=seq))
                    break
                if nxt is not None and seq != nxt and not sc['plan'].get('cts_skew'):
                    v.append(dict(kind='dt-outside-window', t=t, seq=seq, expected=nxt))
                    break
                allowed -= 1
                nxt = seq + 1
                if sc['cmdt_iv'] is not None and last_dt is not None and t - last_dt < int(sc['cmdt_iv'] * 1e6):
                    v.append(dict(kind='cmdt-packets-closer-than-configured-interval', t=t, gap=t - last_dt, interval=int(sc['cmdt_iv'] * 1e6)))
                    break
                last_dt = t
    if sc['role'] == 'stack-originator' and sc['bam']:
        iv = int((sc['bam_iv'] if sc['bam_iv'] is not None else (0.01 if fd else 0.05)) * 1e6)
        ts = [t for t, who, pf, d in ev if who == 0 and pf == dt_pf]
        bam_t = [t for t, who, pf, d in ev if who == 0 and pf == cm_pf]
        seq = ([bam_t[0]] if bam_t else []) + ts
        for a, b in zip(seq, seq[1:]):
            if b - a < iv:
                v.append(dict(kind='bam-packets-closer-than-interval', gap=b - a, interval=iv))
                break
            if b - a > iv + J + 1:
                v.append(dict(kind='bam-packet-late', gap=b - a, interval=iv, jitter=J))
                break
            if b - a > 200000 + J:
                v.append(dict(kind='bam-gap-above-200ms', gap=b - a))
                break
    if sc['role'] == 'stack-responder' and not sc['bam']:
        got = 0
        limit = sc['plan']['limit']
        for t, who, pf, d in ev:
            if who != 0 and pf == dt_pf:
                got += 1
            if who == 0 and pf == cm_pf:
                ctrl = (d[0] & 0xF) if fd else d[0]
                if (fd and ctrl == 1) or (not fd and ctrl == 17):
                    g = d[7] if fd else d[1]
                    s = (d[4] | (d[5] << 8) | (d[6] << 16)) if fd else d[2]
                    remaining = n - (s - 1)
                    if g > min(sc['max_cmdt'], limit, remaining):
                        v.append(dict(kind='over-grant', grant=g, own_max=sc['max_cmdt'], rts_limit=limit, remaining=remaining))
                        break
                    if g < 1 and remaining > 0:
                        v.append(dict(kind='zero-grant-without-hold', grant=g))
                        break
                    if s != got + 1:
                        v.append(dict(kind='cts-next-packet-number', next=s, received=got))
                        break
    if res.job != ['alive']:
        v.append(dict(kind='job-thread-' + res.job[0]))
    return v

"""C09 — a real stack against the active reference peer (see tpconf.py)."""
import netcorr, json
import common as C
import sprop, tpconf, corr21, scen
import refpeer as R

FILES = ['theories/Base.v', 'theories/gen/Codec.v', 'theories/gen/Tp21Gen.v', 'theories/gen/CaGen.v', 'theories/CodecGlue.v',
         'theories/Model21.v', 'theories/Replay21.v', 'theories/Sae21.v', 'proofs/CodecProofs.v', 'proofs/Flat.v', 'proofs/Tp21Seg.v',
         'proofs/Tp21Resp.v', 'proofs/Tp21Orig.v', 'proofs/WireProofs.v', 'proofs/PacingProofs.v',
         'theories/gen/Tp22Gen.v', 'theories/Model22.v', 'theories/Replay22.v', 'proofs/TimeoutProofs.v', 'proofs/MpgProofs.v', 'proofs/PoolProofs.v',
         'proofs/Tp22Proofs.v', 'proofs/Tp22Resp.v', 'proofs/Tp22Orig.v',
         'proofs/RobustProofs.v', 'proofs/NoOversleep.v', 'proofs/NoOversleep22.v',
         'proofs/Net21.v', 'proofs/Net21Proofs.v', 'proofs/Net21Bam.v', 'proofs/Net22.v', 'proofs/Net22Proofs.v', 'proofs/Net22Bam.v']
runner = tpconf.runner
oracle = tpconf.oracle_c09


TX_TIME = 540          # microseconds a classic frame occupies the bus at 250 kbit/s


def bustime_cases(dll, n):
    import refpeer as R
    import peer as P
    fd = dll != 'j1939-21'
    iv = 10000 if fd else 50000
    size_p2p = 1500 if fd else 200
    size_bam = 400 if fd else 40
    base = dict(stacks=[dict(dll=dll, max_cmdt=255, subs=[dict(cid=1, filt=0x10)], cas=[])], lat=[1], jit=[1000], tx_time=TX_TIME, inject=[],
                script=[dict(t=1000, s=0, op='send', a=[0, 0xD0, 0x20, 6, 0x10, dict(seed=11, len=size_p2p)]),
                        dict(t=3000, s=0, op='send', a=[0, 0xFE, 0x31, 6, 0x10, dict(seed=12, len=size_bam)])],
                horizon=3000 + 12 * iv + 400_000, meta=dict(kind='bus-time', dll=dll, interval=iv))
    dry = scen.run(dict(base))
    dts = [e[0] for e in dry.trace if e[2] == 'tx' and ((e[3] >> 16) & 0xFF) == (0x4E if fd else 0xEB) and ((e[3] >> 8) & 0xFF) == 0xFF]
    if len(dts) < 3:
        return
    for k in range(n):
        target = dts[1 + k % 2]
        x = -1600 + (k // 2) * 150
        sc = dict(base)
        if fd:
            cts = [dict(t=target + x, to=0, id=R.ref_can_id(7, 0x4D00 + 0x10, 0x20), data=P.fd_cm(1, sess, 0xFFFFFF, 1, 255, 0, 0xD000), fd=True, via='listener') for sess in range(2)]
        else:
            cts = [dict(t=target + x, to=0, id=R.ref_tp_cm_id(7, 0x10, 0x20), data=[17, 255, 1, 255, 255] + R.ref_pgn3(0xD000), via='listener')]
        sc['inject'] = cts
        sc['meta'] = dict(base['meta'], cts_at=target + x)
        yield sc


def twobam_cases(dll, n, rng):
    """two broadcasts from two applications of ONE ECU, the second started while the first is under way, with a configured packet
    interval close to the standard's upper limit: each broadcast keeps its own pace (>= interval, <= 200 ms when nothing else
    is going on)"""
    fd = dll != 'j1939-21'
    for k in range(n):
        iv = rng.choice([0.05, 0.1, 0.15, 0.18])
        off = rng.choice([1000, 30000, 100000, 160000])
        n1, n2 = (rng.choice([200, 330]), rng.choice([150, 290])) if fd else (rng.choice([30, 40]), rng.choice([20, 33]))
        yield dict(stacks=[dict(dll=dll, max_cmdt=3, bam_iv=iv, subs=[dict(cid=1, filt=0x10), dict(cid=2, filt=0x11)], cas=[])], lat=[1], jit=[1],
                   script=[dict(t=1000, s=0, op='send', a=[0, 0xFE, 0x31, 6, 0x10, dict(seed=21 + k, len=n1)]),
                           dict(t=1000 + off, s=0, op='send', a=[0, 0xFE, 0x32, 6, 0x11, dict(seed=51 + k, len=n2)])],
                   horizon=1000 + off + 12 * int(iv * 1e6) + 1_000_000, inject=[],
                   meta=dict(kind='two-bams', dll=dll, interval=int(iv * 1e6)))


def cmdt_bam_cases(dll, n, rng):
    """a connection-mode transfer and a broadcast from two applications of ONE ECU, the transfer started first and finished
    (acknowledged by the real peer) while the broadcast is between two of its packets: the broadcast keeps its pace"""
    fd = dll != 'j1939-21'
    for k in range(n):
        iv = rng.choice([0.05, 0.1, 0.15])
        off = rng.choice([500, 2000, 20000])
        n1, n2 = (rng.choice([100, 200]), rng.choice([290, 400])) if fd else (rng.choice([9, 20, 30]), rng.choice([30, 40]))
        yield dict(stacks=[dict(dll=dll, max_cmdt=rng.choice([1, 3, 255]), bam_iv=iv, subs=[dict(cid=1, filt=0x10), dict(cid=2, filt=0x11)], cas=[]),
                           dict(dll=dll, max_cmdt=rng.choice([1, 2, 255]), subs=[dict(cid=3, filt=0x20)], cas=[])], lat=[rng.choice([1, 500])], jit=[1],
                   script=[dict(t=1000, s=0, op='send', a=[0, 0xD0, 0x20, 6, 0x10, dict(seed=71 + k, len=n1)]),
                           dict(t=1000 + off, s=0, op='send', a=[0, 0xFE, 0x32, 6, 0x11, dict(seed=91 + k, len=n2)])],
                   horizon=1000 + off + 12 * int(iv * 1e6) + 1_000_000, inject=[],
                   meta=dict(kind='two-bams', dll=dll, interval=int(iv * 1e6), sources=[0x11]))


def tworx_cases(n, rng):
    """two originators with DIFFERENT window limits in their requests send connection-mode messages to ONE responder at the
    same time (J1939-21): every clear-to-send of the responder stays within the limit of the request of THAT connection, its
    own maximum and what remains"""
    for k in range(n):
        la, lb = rng.choice([(2, 5), (1, 4), (3, 7), (5, 2)])
        own = rng.choice([8, 16, 255])
        na, nb_ = rng.randint(3 * la + 1, 4 * la + 6), rng.randint(2 * lb + 1, 3 * lb + 4)
        off = rng.choice([100, 700, 3000])
        yield dict(stacks=[dict(dll='j1939-21', max_cmdt=la, subs=[dict(cid=1, filt=0x10)], cas=[]),
                           dict(dll='j1939-21', max_cmdt=lb, subs=[dict(cid=2, filt=0x20)], cas=[]),
                           dict(dll='j1939-21', max_cmdt=own, subs=[dict(cid=3, filt=0x30)], cas=[])], lat=[rng.choice([1, 500])], jit=[1],
                   script=[dict(t=1000, s=0, op='send', a=[0, 0xD0, 0x30, 6, 0x10, dict(seed=311 + k, len=7 * na - rng.randint(0, 6))]),
                           dict(t=1000 + off, s=1, op='send', a=[0, 0xD1, 0x30, 6, 0x20, dict(seed=411 + k, len=7 * nb_ - rng.randint(0, 6))])],
                   horizon=3_000_000, inject=[], meta=dict(kind='two-receptions', own=own, limits={'16': la, '32': lb}))


def tworx_oracle(sc, res):
    v = []
    m = sc['meta']
    conn = {}
    for e in res.trace:
        if e[2] != 'tx':
            continue
        prio_, pg, sa = R.ref_parse_id(e[3])
        if (pg >> 8) & 0xFF != 0xEC:
            continue
        d = list(e[6])
        da = pg & 0xFF
        if d[0] == 16:
            conn[sa] = dict(n=d[3], limit=d[4], nxt=1)
        elif d[0] == 17 and da in conn and d[1] > 0:
            c = conn[da]
            allowed = min(c['limit'], m['own'], c['n'] - d[2] + 1)
            if d[1] > allowed:
                v.append(dict(kind='cts-grants-more-than-allowed', to=da, granted=d[1], next=d[2], rts_limit=c['limit'], own_maximum=m['own'], remaining=c['n'] - d[2] + 1))
                break
    got = sorted(e[3] for e in res.trace if e[2] == 'cb' and e[1] == 2 and len(e[7]) > 8)
    if got != [3, 3]:
        v.append(dict(kind='two-receptions-not-both-delivered', callbacks=got))
    return v


def wake_cases(dll, n):
    """frames that wake the background thread (announcements of broadcasts by other nodes) arrive a moment BEFORE a deadline of
    the stack's own broadcast: the next packet still leaves no earlier than its time"""
    import refpeer as R
    import peer as P
    fd = dll != 'j1939-21'
    iv = 10000 if fd else 50000
    base = dict(stacks=[dict(dll=dll, max_cmdt=255, subs=[dict(cid=1, filt=0x10)], cas=[])], lat=[1], jit=[1000], inject=[],
                script=[dict(t=3000, s=0, op='send', a=[0, 0xFE, 0x31, 6, 0x10, dict(seed=12, len=400 if fd else 40)])],
                horizon=3000 + 12 * iv + 400_000, meta=dict(kind='bus-time', dll=dll, interval=iv))
    dry = scen.run(dict(base))
    dts = [e[0] for e in dry.trace if e[2] == 'tx' and ((e[3] >> 16) & 0xFF) == (0x4E if fd else 0xEB) and ((e[3] >> 8) & 0xFF) == 0xFF]
    if len(dts) < 3:
        return
    for k in range(n):
        # the deadline of packet 2 resp. 3 is one interval after the previous packet left
        due = dts[k % 2] + iv
        xs = [950, 700, 400, 150, 20][k % 5:] + [990, 500, 60]
        sc = dict(base)
        inj = []
        for i, x in enumerate(xs[:4]):
            if fd:
                inj.append(dict(t=due - x, to=0, id=R.ref_can_id(7, 0x4D00 + 255, 0x60 + i), data=P.fd_cm(4, i % 4, 200, 4, 255, 0, 0xFE80 + i), fd=True, via='listener'))
            else:
                inj.append(dict(t=due - x, to=0, id=R.ref_tp_cm_id(7, 255, 0x60 + i), data=R.ref_bam(20, 3, 0xFE80 + i), via='listener'))
        sc['inject'] = sorted(inj, key=lambda e: e['t'])
        sc['meta'] = dict(base['meta'], wakeups_before=due)
        yield sc


def twobam_oracle(sc, res):
    m = sc['meta']
    fd = m['dll'] != 'j1939-21'
    v = []
    for sa in m.get('sources', (0x10, 0x11)):
        dts = [e[0] for e in res.trace if e[2] == 'tx' and ((e[3] >> 16) & 0xFF) == (0x4E if fd else 0xEB) and (e[3] & 0xFF) == sa]
        # the whole broadcast leaves: every packet of it, the first one an interval after the announcement
        ann = [e[0] for e in res.trace if e[2] == 'tx' and ((e[3] >> 16) & 0xFF) == (0x4D if fd else 0xEC) and (e[3] & 0xFF) == sa and ((e[3] >> 8) & 0xFF) == 0xFF]
        sent = [ev for ev in sc['script'] if ev['op'] == 'send' and ev['a'][4] == sa and ev['a'][1] >= 240]
        if ann and sent:
            ln = sent[0]['a'][5]['len']
            need = (ln + 59) // 60 if fd else (ln + 6) // 7
            if len(dts) != need:
                v.append(dict(kind='broadcast-not-sent-completely', source=sa, packets=len(dts), expected=need))
                continue
            dts = [ann[0]] + dts
        for a, b in zip(dts, dts[1:]):
            if b - a < m['interval']:
                v.append(dict(kind='bam-packets-closer-than-interval', source=sa, gap=b - a, interval=m['interval']))
                break
            if b - a > max(m['interval'], 200000) + 2000:
                v.append(dict(kind='bam-packet-later-than-200ms', source=sa, gap=b - a, interval=m['interval']))
                break
    for js in res.job:
        if js != 'alive':
            v.append(dict(kind='job-thread-' + js))
    return v


def bustime_oracle(sc, res):
    if sc.get('meta', {}).get('kind') == 'two-bams':
        return twobam_oracle(sc, res)
    m = sc['meta']
    fd = m['dll'] != 'j1939-21'
    v = []
    dts = [e[0] for e in res.trace if e[2] == 'tx' and ((e[3] >> 16) & 0xFF) == (0x4E if fd else 0xEB) and ((e[3] >> 8) & 0xFF) == 0xFF]
    for a, b in zip(dts, dts[1:]):
        if b - a < m['interval']:
            v.append(dict(kind='bam-packets-closer-than-interval', gap=b - a, interval=m['interval'], cts_at=m.get('cts_at'), bus_time_per_frame=TX_TIME))
            break
    for js in res.job:
        if js != 'alive':
            v.append(dict(kind='job-thread-' + js))
    return v


def scenario_runner(sc):
    return scen.run(sc) if sc.get('meta', {}).get('kind') in ('bus-time', 'two-bams') else tpconf.runner(sc)


def scenario_oracle(sc, res):
    return bustime_oracle(sc, res) if sc.get('meta', {}).get('kind') in ('bus-time', 'two-bams') else oracle(sc, res)


def run(out, tier, rng, work):
    out.rule = ('a real stack (either layer, either role, RTS/CTS and BAM, all size residues, max_cmdt 1..255, optional minimum DT intervals) '
                'against an independent reference peer that draws its free choices from the standard\'s envelope: CTS windows 1..min(limit, '
                'remaining), 0..3 holds spaced < 0.5 s, reply latency 0..150 ms, BAM spacing 50..190 ms (FD 10..190 ms), RTS limit 1..255; '
                'oracle reads the bus: decode by the reference layouts / window and pacing discipline / grants; J1939-21 handler logs '
                'replayed on the Coq model; non-trivial = the transfer ran (TP frames on the bus)'
                ' Plus: wake-ups a moment before a broadcast deadline; a connection-mode transfer finishing while a broadcast of the same ECU is under way; a responder that shrinks its grants.  Every fourth scenario: FD with the last segment on both sides of every CAN-FD length step; every fourth: J1939-21 responder with sizes at multiples of 7 and a partial last window; cyclic application timers in 30 %.')
    out.assumptions = ['A1-A6 of DESIGN.md section 3', 'J1939-22 frames are checked against refpeer layouts by the oracle; the Coq wire theorems cover J1939-21 (FD builders: see C02)']
    C.std_proof_stage(out, 'C09', FILES)
    n = 150 if tier == 'quick' else 3000
    runs, worst = [], {}
    for k in range(n):
        sc = tpconf.gen(rng, k, big=(k % 20 == 0), sync_paced=(k % 10 == 6))
        if k % 10 == 3 and sc['dll'] == 'j1939-21' and not sc['bam']:
            # the peer answers with hold CTS frames only and then falls silent: no data may follow a hold that is not renewed
            sc['role'] = 'stack-originator'
            sc['plan']['holds'] = [rng.choice([1, 2, 3])]
            sc['plan']['silent_after_hold'] = True
        if k % 10 == 8 and sc['dll'] == 'j1939-21' and not sc['bam'] and sc['size'] > 40:
            # the peer's later clear-to-send frames name another packet than the next one (it re-requests, or skips ahead), with
            # small grants: whichever way the stack reads that, no more packets than granted follow each of them
            sc['role'] = 'stack-originator'
            sc['plan']['cts_skew'] = rng.choice([-2, -1, 2, 3])
            sc['plan']['windows'] = [rng.choice([1, 2]), rng.choice([2, 3])]
            sc['plan']['holds'] = [0]
        res = tpconf.runner(sc)
        runs.append((sc, res))
        out.add_case(scen.sc_hash(sc), sum(1 for e in res.trace if e[2] == 'tx') > 2,
                     sample={a: b for a, b in sc.items() if a in ('dll', 'role', 'bam', 'size', 'max_cmdt', 'cmdt_iv', 'bam_iv', 'plan')} if k < 3 else None)
        for x in oracle(sc, res):
            if x['kind'] not in worst or len(json.dumps(sc)) < len(json.dumps(worst[x['kind']][1])):
                worst[x['kind']] = (x, sc)
    # pacing end to end: the timed network model of theorems C09_bam_closed_loop_paced / C09_fd_bam_closed_loop_paced against
    # two real stacks — the frames, the callbacks and the TIME of every frame of the broadcast
    for only in ('bam21', 'bamfd'):
        nn, nmism, nerrors, nbad = netcorr.run(work, rng, 6 if tier == 'quick' else 60, big=(tier != 'quick'), tag='c09' + only, only=only)
        out.extra['paced_closed_loop_cases_' + only] = nn
        out.traces_validated += nn
        for name, o in nerrors[:3]:
            out.broken.append('paced closed-loop correspondence %s did not evaluate: %s' % (name, o[-200:].replace('\n', ' ')))
        for c, i, m, im in nmism[:3]:
            out.broken.append('paced closed-loop correspondence: network model and two real stacks differ (case %s) at observation %s: model %s / impl %s'
                              % (c, i, str(m)[:120], str(im)[:120]))
    sub = [(dict(tpconf.scen_for_corr(sc)), res) for sc, res in runs if sc['dll'] == 'j1939-21']
    ntr, mism, errors = corr21.correspond(work, sub, tag='c09')
    out.traces_validated += ntr
    for e in errors:
        out.broken.append('correspondence %s did not evaluate: %s' % (e[0], e[1][-300:].replace('\n', ' ')))
    j21 = [sc for sc, res in runs if sc['dll'] == 'j1939-21']
    for (k, j, g) in mism[:5]:
        out.broken.append('correspondence: model and implementation differ in scenario %s' % json.dumps({a: b for a, b in j21[k].items() if a != 'plan'})[:300])
    # pacing when handing a frame to the bus takes time (bus-time mode, oracle only): a broadcast in progress while a
    # connection-mode burst is released by a CTS arriving around one of the broadcast's deadlines
    nb = 0
    for dll in ('j1939-21', 'j1939-22'):
        for sc in bustime_cases(dll, 24 if tier == 'quick' else 160):
            res = scen.run(sc)
            nb += 1
            out.add_case(scen.sc_hash(sc), True)
            for x in bustime_oracle(sc, res):
                if x['kind'] not in worst:
                    worst[x['kind']] = (x, sc)
        for sc in wake_cases(dll, 10 if tier == 'quick' else 60):
            res = scen.run(sc)
            nb += 1
            out.add_case(scen.sc_hash(sc), True)
            for x in bustime_oracle(sc, res):
                if x['kind'] not in worst:
                    worst[x['kind']] = (x, sc)
        for sc in list(twobam_cases(dll, 8 if tier == 'quick' else 80, rng)) + list(cmdt_bam_cases(dll, 6 if tier == 'quick' else 60, rng)):
            res = scen.run(sc)
            nb += 1
            out.add_case(scen.sc_hash(sc), True)
            for x in twobam_oracle(sc, res):
                if x['kind'] not in worst:
                    worst[x['kind']] = (x, sc)
    for sc in tworx_cases(8 if tier == 'quick' else 80, rng):
        res = scen.run(sc)
        nb += 1
        out.add_case(scen.sc_hash(sc), True)
        for x in tworx_oracle(sc, res):
            if x['kind'] not in worst:
                worst[x['kind']] = (x, sc)
    out.extra['bus_time_runs'] = nb
    for kind, (x, sc) in worst.items():
        out.violation('%s: %s' % (kind, json.dumps(x, default=str)[:300]), dict(kind=kind), dict(broke='oracle', scenario=sc, violation=x))

"""items.py — the real-code side of the item-level correspondence: flat list[int] -> list[int] wrappers
around the implementation, one per wrapper of coq/theories/Items.v, plus input generators."""
import random


def _mods():
    import j1939
    import sys
    return j1939


def b2z(b):
    return 1 if b else 0


def flat_frame(sent):
    can_id, ext, data, fd = sent
    return [can_id, b2z(ext), b2z(fd), len(data)] + [int(x) for x in data]


class Capture:
    """stands in for send_message; keeps the last frame"""
    def __init__(self):
        self.sent = []

    def __call__(self, can_id, extended_id, data, fd_format=False):
        self.sent.append((can_id, extended_id, list(data), fd_format))


def name_flat(n):
    return [n.identity_number, n.manufacturer_code, n.ecu_instance, n.function_instance, n.function,
            n.reserved_bit, n.vehicle_system, n.vehicle_system_instance, n.industry_group,
            n.arbitrary_address_capable, n.value] + list(n.bytes)


def make_dll21(cap):
    j = _mods()
    from j1939.j1939_21 import J1939_21
    return J1939_21(cap, lambda: None, lambda *a: None, 1, None, None, lambda d: False)


def mangled(obj, cls, name):
    return getattr(obj, '_%s__%s' % (cls, name))


def impl():
    j = _mods()
    from j1939.message_id import MessageId
    from j1939.parameter_group_number import ParameterGroupNumber as PGN
    from j1939.name import Name
    from j1939.diagnostic_messages import DTC, DtcLamp, Dm22, Dm1
    from j1939.controller_application import ControllerApplication
    _OPERATIONAL = ControllerApplication.State.NORMAL

    def mid_of(l):
        return [MessageId(priority=l[0], parameter_group_number=l[1], source_address=l[2]).can_id]

    def mid_raw(l):
        m = MessageId()
        m.priority, m.parameter_group_number, m.source_address = l
        return [m.can_id]

    def mid_parse(l):
        m = MessageId(can_id=l[0])
        return [m.priority, m.parameter_group_number, m.source_address]

    def pgn(l):
        p = PGN(l[0], l[1], l[2])
        return [p.value, b2z(p.is_pdu1_format), b2z(p.is_pdu2_format), p.data_page, p.pdu_format, p.pdu_specific]

    def pgn_from_mid(l):
        p = PGN()
        p.from_message_id(MessageId(can_id=l[0]))
        return [p.data_page, p.pdu_format, p.pdu_specific, p.value, b2z(p.is_pdu1_format), b2z(p.is_pdu2_format)]

    def name_value(l):
        return name_flat(Name(value=l[0]))

    def name_bytes(l):
        return name_flat(Name(bytes=list(l)))

    def name_fields(l):
        return name_flat(Name(identity_number=l[0], manufacturer_code=l[1], ecu_instance=l[2], function_instance=l[3],
                              function=l[4], vehicle_system=l[5], vehicle_system_instance=l[6], industry_group=l[7],
                              arbitrary_address_capable=l[8]))

    def tp21(method):
        def f(l):
            cap = Capture()
            d = make_dll21(cap)
            m = mangled(d, 'J1939_21', method)
            if method == 'send_tp_dt':
                m(l[0], l[1], list(l[2:]))
            else:
                m(*l)
            return flat_frame(cap.sent[-1])
        return f

    def tp21_hash(l):
        return [make_dll21(Capture())._buffer_hash(l[0], l[1])]

    class FakeEcu:
        def __init__(self):
            self.cap = Capture()
            self.calls = []

        def send_message(self, can_id, ext, data, fd_format=False):
            self.cap(can_id, ext, data, fd_format)

        def send_pgn(self, *a, **k):
            self.calls.append(a)
            return True

    def ca_request(l):
        # payload built by send_request, decoded by _process_request of a second CA
        ecu = FakeEcu()
        ca = ControllerApplication(Name(value=1), 10, bypass_address_claim=True)
        ca.associate_ecu(ecu)
        ca.send_request(0, l[0], 20)
        payload = ecu.calls[-1][5]
        got = []
        ca2 = ControllerApplication(Name(value=2), 20, bypass_address_claim=True)
        ca2.associate_ecu(FakeEcu())
        ca2.subscribe_request(lambda s, d, p: got.append(p))
        if l[0] & 0xFFFFFF == 60928:
            got.append(60928)          # answered by a claim instead of a callback
        else:
            ca2._process_request(MessageId(priority=6, parameter_group_number=0xEA14, source_address=10), 20, payload, 0)
        return list(payload) + got

    def ca_claimed(l):
        ecu = FakeEcu()
        class N:
            bytes = list(l[1:])
        ca = ControllerApplication(Name(value=1), 10)
        ca._name = N()
        ca.associate_ecu(ecu)
        ca._send_address_claimed(l[0])
        return flat_frame(ecu.cap.sent[-1])

    def dtc_pack(l):
        # through Dm1._send: the four bytes appended for one DTC
        d = DTC(spn=l[0], fmi=l[1], oc=l[2]).dtc
        class FakeCa:
            state = _OPERATIONAL          # the cyclic service sends only while its CA is operational
            def __init__(s): s.sent = None
            def send_pgn(s, dp, pf, ps, prio, data): s.sent = list(data)
        fc = FakeCa()
        dm = Dm1.__new__(Dm1)
        dm._pgn = 65226; dm._ca = fc; dm._lamp_status = {}; dm._dtc_dic_list = []; dm._data = []; dm._subscribers = []
        dm._send({'cb': lambda: ({}, [{'spn': l[0], 'fmi': l[1], 'oc': l[2]}])})
        return [d] + fc.sent[2:6]

    def dtc_unpack(l):
        dm = Dm1.__new__(Dm1)
        dm._pgn = 65226; dm._ca = None; dm._lamp_status = {}; dm._dtc_dic_list = []; dm._subscribers = []
        dm._data = [0, 0] + list(l)
        dm._parse_dm1_receive_data()
        e = dm._dtc_dic_list[0]
        dint = (l[0] & 255) | ((l[1] & 255) << 8) | ((l[2] & 255) << 16) | ((l[3] & 255) << 24)
        d = DTC(dtc=dint)
        assert (d.spn, d.fmi, d.oc) == (e['spn'], e['fmi'], e['oc'])
        return [d.dtc, d.spn, d.fmi, d.oc, d.cm]

    def lamp_data(l):
        return list(DtcLamp().get_data({'pl': l[0], 'awl': l[1], 'rsl': l[2], 'mil': l[3]}))

    def lamp_status(l):
        return [DtcLamp().get_status(l[0], l[1])]

    def dm22(l):
        class FakeCa:
            def __init__(s): s.sent = None
            def send_pgn(s, dp, pf, ps, prio, data): s.sent = list(data)
        fc = FakeCa()
        Dm22(fc)._send_request(l[0], 0x20, l[1], l[2])
        return fc.sent

    class FakeCa2:
        state = _OPERATIONAL
        def __init__(s): s.sent = None; s.prio = None
        def send_pgn(s, dp, pf, ps, prio, data): s.sent = list(data); s.prio = prio

    def dm1_build(l):
        fc = FakeCa2()
        dm = Dm1.__new__(Dm1)
        dm._pgn = 65226; dm._ca = fc; dm._lamp_status = {}; dm._dtc_dic_list = []; dm._data = []; dm._subscribers = []
        dtcs = [{'spn': l[i], 'fmi': l[i + 1], 'oc': l[i + 2]} for i in range(4, len(l) - 2, 3)]
        dm._send({'cb': lambda: ({'pl': l[0], 'awl': l[1], 'rsl': l[2], 'mil': l[3]}, dtcs)})
        return [fc.prio] + fc.sent

    def dm1_parse(l):
        dm = Dm1.__new__(Dm1)
        dm._pgn = 65226; dm._ca = None; dm._lamp_status = {'pl': -7}; dm._dtc_dic_list = None; dm._subscribers = []
        dm._data = list(l)
        dm._parse_dm1_receive_data()
        if dm._lamp_status.get('pl') == -7:
            return [0]
        out = [1] + [dm._lamp_status[k] for k in ('pl', 'awl', 'rsl', 'mil')]
        for d in dm._dtc_dic_list:
            out += [d['spn'], d['fmi'], d['oc']]
        return out

    import j1939 as _j
    Dm14Query, DM14Server = _j.Dm14Query, _j.DM14Server
    import sys as _sys
    RS = _sys.modules['j1939.Dm14Server'].ResponseState
    CMD = _sys.modules['j1939.Dm14Query'].Command

    class FakeCa3:
        def __init__(s): s.sent = []
        def send_pgn(s, dp, pf, ps, prio, data): s.sent.append((dp, pf, ps, prio, [int(x) for x in data]))
        def subscribe(s, cb): pass
        def unsubscribe(s, cb): pass

    def dm14_payload(l):
        fc = FakeCa3()
        q = Dm14Query(fc)
        q.object_count, q.direct, q.address, q._dest_address = l[0], l[1], l[3], 0xD4
        q.command = CMD(l[2])
        q._send_dm14(l[4])
        return fc.sent[-1][4]

    def dm14_fields(l):
        fc = FakeCa3()
        sv = DM14Server(fc)
        sv.parse_dm14(6, 0xD900, 0xF9, 0, bytearray(l))
        return [sv.object_count, sv.command, sv.pointer_type, sv.direct, sv.access_level, int.from_bytes(bytes(sv.address), 'little')]

    def dm15(l):
        fc = FakeCa3()
        sv = DM14Server(fc)
        st = [RS.WAIT_FOR_KEY, RS.SEND_PROCEED, RS.SEND_OPERATION_COMPLETE, RS.SEND_ERROR][l[0]]
        sv.set_seed_generator(lambda: l[4])
        sv._send_dm15(8, l[1], l[2], st, l[3], 0xF9, 0xD800, l[5], l[6])
        return fc.sent[-1][4]

    def dm15_fields(l):
        # what Dm14Query._parse_dm15 extracts (re-stated with its own expressions through a probe subclass)
        data = bytearray(l)
        seed = (data[7] << 8) + data[6]
        status = (data[1] >> 1) & 7
        error = int.from_bytes(data[2:5], byteorder='little', signed=False)
        return [seed, status, error, data[5], data[0]]

    def dm14_v2b(l):
        q = Dm14Query(FakeCa3())
        q.object_byte_size = l[0]
        return list(q._values_to_bytes(list(l[1:])))

    def dm14_b2v(l):
        q = Dm14Query(FakeCa3())
        q.object_byte_size, q.signed = l[0], bool(l[1])
        return list(q._bytes_to_values(bytearray(l[2:])))

    def dm16(l):
        fc = FakeCa3()
        q = Dm14Query(fc)
        q.bytes, q._dest_address = list(l), 0xD4
        q._send_dm16()
        frame = fc.sent[-1][4]
        q2 = Dm14Query(FakeCa3())
        q2._dest_address = 0xD4
        q2._parse_dm16(6, 0xD700, 0xD4, 0, bytearray(frame))
        return frame + [-1] + list(q2.mem_data)

    def dm14_guard(l):
        fc = FakeCa3()
        sv = DM14Server(fc)
        sv.sa = None if l[0] == 0 else l[1]
        sv.address = None if l[2] == 0 else bytearray(l[3:7])
        sv._busy = bool(l[7])
        sv.error = l[8]
        before = (sv.sa, sv.address, sv.state, sv.length)
        try:
            sv.parse_dm14(6, 0xD900, l[9], 0, bytearray(l[10:]))
        except Exception:
            pass
        if fc.sent and (fc.sent[-1][4][1] >> 1) & 7 == 5 and (sv.sa, sv.address, sv.state) == before[:3]:
            return [1, fc.sent[-1][2]] + fc.sent[-1][4]
        return [0]

    return {
        'item_dm14_payload': dm14_payload, 'item_dm14_fields': dm14_fields, 'item_dm15': dm15, 'item_dm15_fields': dm15_fields,
        'item_dm14_v2b': dm14_v2b, 'item_dm14_b2v': dm14_b2v, 'item_dm16': dm16, 'item_dm14_guard': dm14_guard,
        'item_dm1_build': dm1_build, 'item_dm1_parse': dm1_parse,
        'item_mid_of': mid_of, 'item_mid_raw': mid_raw, 'item_mid_parse': mid_parse, 'item_pgn': pgn,
        'item_pgn_from_mid': pgn_from_mid, 'item_name_value': name_value, 'item_name_bytes': name_bytes,
        'item_name_fields': name_fields, 'item_tp21_hash': tp21_hash,
        'item_tp21_dt': tp21('send_tp_dt'), 'item_tp21_abort': tp21('send_tp_abort'), 'item_tp21_cts': tp21('send_tp_cts'),
        'item_tp21_eom_ack': tp21('send_tp_eom_ack'), 'item_tp21_rts': tp21('send_tp_rts'), 'item_tp21_bam': tp21('send_tp_bam'),
        'item_ca_request': ca_request, 'item_ca_claimed': ca_claimed,
        'item_dtc_pack': dtc_pack, 'item_dtc_unpack': dtc_unpack, 'item_lamp_data': lamp_data,
        'item_lamp_status': lamp_status, 'item_dm22': dm22,
    }


# ------------------------------------------------------------------ input generators
def walk(width, rng, n_random=8):
    """bit-walking + boundary + random values of a field of `width` bits"""
    vals = {0, 1, (1 << width) - 1, (1 << width) - 2, 1 << (width - 1)}
    for k in range(width):
        vals.add(1 << k)
        vals.add(((1 << width) - 1) ^ (1 << k))
    for _ in range(n_random):
        vals.add(rng.getrandbits(width))
    return sorted(vals)


def tuples(rng, widths, n, overflow=0):
    """n tuples; each field cycles through its walk values while the others are random"""
    out = []
    walks = [walk(w, rng) for w in widths]
    for i, wk in enumerate(walks):
        for v in wk:
            t = [rng.getrandbits(w) for w in widths]
            t[i] = v
            out.append(t)
    while len(out) < n:
        out.append([rng.getrandbits(w + overflow) for w in widths])
    rng.shuffle(out)
    return out[:max(n, sum(len(w) for w in walks))]


def gen_dm1_build(r, n):
    out = []
    for k in range(n // 4):
        cnt = r.choice([1, 1, 2, 3, 5, 20])
        l = [r.randint(0, 5) for _ in range(4)]
        for _ in range(cnt):
            l += [r.choice([0, 1, 0xFFFF, 0x10000, 0x7FFFF, r.getrandbits(19)]), r.choice([0, 31, r.getrandbits(5)]), r.choice([0, 127, r.getrandbits(7)])]
        out.append(l)
    return out


def gen_dm1_parse(r, n):
    out = []
    for k in range(n // 4):
        ln = r.choice([0, 3, 5, 6, 7, 8, 9, 10, 14, 18, 22, 42])
        out.append([r.getrandbits(8) for _ in range(ln)])
    return out


def gen_v2b(r, n):
    out = []
    for _ in range(n // 3):
        size = r.choice([1, 2, 4, 8])
        out.append([size] + [r.choice([0, (1 << (8 * size)) - 1, 1 << (8 * size - 1), r.getrandbits(8 * size)]) for _ in range(r.randint(0, 6))])
    return out


def gen_b2v(r, n):
    out = []
    for _ in range(n // 3):
        size = r.choice([1, 2, 4, 8])
        cnt = r.randint(0, 5)
        out.append([size, r.randint(0, 1)] + [r.choice([0, 255, 128, 127, r.randrange(256)]) for _ in range(cnt * size + r.choice([0, 0, 1]))])
    return out


def gen_guard(r, n):
    out = []
    for _ in range(n // 2):
        a = [r.randrange(256) for _ in range(4)]
        same_ptr = r.random() < 0.5
        ptr = a if same_ptr else [r.randrange(256) for _ in range(4)]
        rq = r.choice([0xF9, 0xF9, 0xA7, 0x10])
        out.append([r.randint(0, 1), 0xF9, r.randint(0, 1)] + a + [r.choice([0, 0, 0, 1]), r.choice([0, 0, 0x100, 0x1003]), rq,
                   r.randint(1, 20), (r.randint(0, 1) << 4) + (r.choice([1, 2, 4]) << 1) + 1] + ptr + [r.randrange(256), r.randrange(256)])
    return out


GEN = {
    'item_dm14_payload': lambda r, n: [t for t in tuples(r, [8, 1, 3, 32, 16], n)],
    'item_dm14_fields': lambda r, n: [[t[0], (t[1] % 2 << 4) + ((t[2] % 8) << 1) + 1] + t[3:] for t in tuples(r, [8] * 9, n)],
    'item_dm15': lambda r, n: [[k] + t for k in range(4) for t in tuples(r, [1, 3, 8, 16, 24, 8], n // 4)],
    'item_dm15_fields': lambda r, n: tuples(r, [8] * 8, n),
    'item_dm14_v2b': gen_v2b, 'item_dm14_b2v': gen_b2v,
    'item_dm16': lambda r, n: [[r.randrange(256) for _ in range(k)] for k in list(range(1, 12)) + [20, 100, 254, 255]],
    'item_dm14_guard': gen_guard,
    'item_dm1_build': gen_dm1_build, 'item_dm1_parse': gen_dm1_parse,
    'item_mid_of': lambda r, n: tuples(r, [3, 18, 8], n) + tuples(r, [5, 20, 10], n // 4),
    'item_mid_raw': lambda r, n: tuples(r, [3, 18, 8], n),
    'item_mid_parse': lambda r, n: tuples(r, [29], n),
    'item_pgn': lambda r, n: tuples(r, [1, 8, 8], n) + tuples(r, [3, 10, 10], n // 4),
    'item_pgn_from_mid': lambda r, n: tuples(r, [29], n),
    'item_name_value': lambda r, n: tuples(r, [64], n),
    'item_name_bytes': lambda r, n: tuples(r, [8] * 8, n),
    'item_name_fields': lambda r, n: tuples(r, [21, 11, 3, 5, 8, 7, 4, 3, 1], n),
    'item_tp21_hash': lambda r, n: tuples(r, [8, 8], n) + tuples(r, [10, 10], n // 4),
    'item_tp21_dt': lambda r, n: [t[:2] + t[2:2 + 1 + (t[10] % 8)] for t in tuples(r, [8] * 11, n)],
    'item_tp21_abort': lambda r, n: tuples(r, [8, 8, 8, 18], n),
    'item_tp21_cts': lambda r, n: tuples(r, [8, 8, 8, 8, 18], n),
    'item_tp21_eom_ack': lambda r, n: tuples(r, [8, 8, 11, 8, 18], n),
    'item_tp21_rts': lambda r, n: tuples(r, [8, 8, 3, 18, 11, 8, 8], n),
    'item_tp21_bam': lambda r, n: tuples(r, [8, 3, 18, 11, 8], n),
    'item_ca_request': lambda r, n: tuples(r, [18], n) + tuples(r, [24], n // 4),
    'item_ca_claimed': lambda r, n: tuples(r, [8] * 9, n),
    'item_dtc_pack': lambda r, n: tuples(r, [19, 5, 7], n),
    'item_dtc_unpack': lambda r, n: tuples(r, [8, 8, 8, 8], n),
    'item_lamp_data': lambda r, n: [[a, b, c, d] for a in range(6) for b in range(6) for c in range(6) for d in range(6)],
    'item_lamp_status': lambda r, n: [[a, b] for a in range(4) for b in range(4)],
    'item_dm22': lambda r, n: tuples(r, [8, 5, 19], n),
}


def run_items(names, rng, n, work, C):
    """returns (n_cases, mismatches:list of (item, input, impl_out), errors)"""
    fns = impl()
    files = []
    meta = {}
    for nm in names:
        ins = GEN[nm](rng, n)
        cases = []
        for x in ins:
            try:
                y = [int(v) for v in fns[nm](list(x))]
            except Exception as ex:      # the implementation raised: recorded as an impossible output
                y = [-999999, len(str(type(ex).__name__))]
            cases.append((x, y))
        meta[nm] = cases
        body = 'Definition cases : list (list Z * list Z) := [\n' + ';\n'.join('(%s,%s)' % (C.zl(x), C.zl(y)) for x, y in cases) + '].\n'
        body += 'Eval vm_compute in (mismatches %s cases).\n' % nm
        files.append((nm, C.COQ_HEADER + 'From J1939 Require Import Items.\nOpen Scope Z_scope.\n' + body))
    res = C.run_many_cases(work, files, timeout=300, par=8)
    mism, errors, total = [], [], 0
    for nm in names:
        rc, out = res[nm]
        total += len(meta[nm])
        if rc != 0:
            errors.append((nm, out[-600:]))
            continue
        idx = C.parse_nat_list(out)
        if len(idx) != 1:
            errors.append((nm, 'unparsable: ' + out[-300:]))
            continue
        for i in idx[0]:
            mism.append((nm, meta[nm][i][0], meta[nm][i][1]))
    return total, mism, errors

"""dm14net.py — correspondence of the composed DM14 model (coq/theories/Dm14Net.v: requesting side against serving side
with the serving application answering) with TWO REAL FACADES on two real stacks (dm14h.runner): for the first operation of
a scenario — a read or a write of 1..7 bytes, with or without seed and key — the frames each side put on the bus, in order,
the arguments the serving application's proceed function was called with, what read()/write() returned and what respond()
returned are computed by the model inside coqc and compared with what the real objects did."""
import common as C
import dm14h

IMPORTS = 'From J1939 Require Import Base Dm14Model Dm14Cli Dm14Srv Dm14Net.\n'
DEFS = '''
Definition cfg_plain : cfg := {| c_seedsec := false; c_hasproceed := true; c_key := fun sd => sd |}.
Definition cfg_key : cfg := {| c_seedsec := true; c_hasproceed := true; c_key := fun sd => Z.lxor sd 65535 |}.
Definition fc (o : cout) : list Z := match o with CSend pf d pr data => 1 :: pf :: d :: pr :: data end.
Definition fs (o : sout) : list Z :=
  match o with
  | SSend pf d pr data => 2 :: pf :: d :: pr :: data
  | SProceedFn a b c d e f g h i => [3; a; b; c; d; e; f; g; h; i]
  | SNotify => [4]
  end.
Definition fret (r : cret) : list Z := match r with CRValues v => 1 :: v | CRNone => [0] | CRRaise _ => [2] end.
Definition fsret (r : rret) : list Z := match r with RetNone => [0] | RetData d => 1 :: d | RetRaise x => [2; x] end.
Definition obs (t : txn) : list (list Z) :=
  map fc (t_cli_sent t) ++ [[-1]] ++ map fs (t_srv_sent t) ++ [[-2]] ++ [fret (t_ret t); fsret (t_srv_ret t)] ++
  [[q_state (t_cli t); zlen (q_subs (t_cli t)); v_state (t_srv t); a_state (t_srv t); zlen (subs (t_srv t))]].
'''


def eligible(sc):
    op = sc['ops'][0]
    if sc.get('server_absent') or sc.get('client_wrong_key') or sc.get('intruder') or sc.get('inject'):
        return False
    if any(op.get(k) for k in ('refuse_proceed', 'absent', 'rekey')) or op.get('respond_false') is not None:
        return False
    if len(sc['ops']) > 1 and not op.get('gap', 0.3) > 0:
        return False          # (the next request leaves at the very instant this operation returns)
    n = len(op['server_data']) if op['kind'] == 'read' else len(op['values']) * op.get('size', 1)
    return 1 <= n <= 7 and (op['kind'] == 'read' or op.get('size', 1) in (1, 2, 4))


def model_text(sc):
    op = sc['ops'][0]
    cfg = 'cfg_key' if sc.get('seedkey') else 'cfg_plain'
    seeds = C.zl(sc.get('seeds', [0xA55A] * 50)[:3]) if sc.get('seedkey') else '[]'
    b = lambda x: 'true' if x else 'false'
    if op['kind'] == 'read':
        return ('obs (txn_read %s (c_key %s) (init_srv %s []) init_cli %d %d %d %d %d %d %s %s %s)'
                % (cfg, cfg, seeds, dm14h.C_ADDR, dm14h.S_ADDR, op.get('direct', 1), op['address'], op['count'], op.get('size', 1),
                   b(op.get('signed', False)), b(op.get('raw', False)), C.zl(op['server_data'])))
    return ('obs (txn_write %s (c_key %s) (init_srv %s []) init_cli %d %d %d %d %s %d)'
            % (cfg, cfg, seeds, dm14h.C_ADDR, dm14h.S_ADDR, op.get('direct', 1), op['address'], C.zl(op['values']), op.get('size', 1)))


def observe_impl(sc, res):
    """the same observation from the real run: frames of the client / of the server up to the end of operation 0"""
    t_end = res.times[0][1] if res.times and res.times[0][1] is not None else res.end
    cli, srv = [], []
    for e in res.trace:
        if e[2] == 'tx' and e[0] <= t_end:
            cid = e[3]
            prio, pf, ps = (cid >> 26) & 7, (cid >> 16) & 0xFF, (cid >> 8) & 0xFF
            (cli if e[1] == 0 else srv).append((e[0], [pf, ps, prio] + [int(x) for x in e[6]]))
    served = [s for s in res.served if s.get('op') == 0]
    ev = [(t, [2] + f) for t, f in srv]
    for s in served:
        if s['ev'] == 'proceed':
            ev.append((s['t'] - 0.5, [3, s['command'], s['address'], s['pointer_type'], s['length'], s['object_count'], s['key'], s['sa'], s['level'], s['seed']]))
        elif s['ev'] == 'notify':
            ev.append((s['t'] - 0.25, [4]))
    ev.sort(key=lambda x: x[0])
    r = res.results[0] if res.results else None
    ret = [2] if (r is None or r[0] != 'ok') else ([0] if r[1] is None else [1] + [int(x) for x in r[1]])
    rr = [s for s in served if s['ev'] == 'respond-returned']
    sret = [0] if (not rr or rr[0]['data'] is None) else [1] + [int(x) for x in rr[0]['data']]
    return [[1] + f for t, f in cli] + [[-1]] + [f for t, f in ev] + [[-2]] + [ret, sret]


def run(work, runs, tag='dm14net', limit=40):
    """runs: [(scenario, result)] of dm14h.runner.  Returns (n, mismatches, errors)"""
    sel = [(sc, res) for sc, res in runs if eligible(sc)][:limit]
    files = []
    for k, (sc, res) in enumerate(sel):
        files.append(('%s_%d' % (tag, k), C.COQ_HEADER + IMPORTS + 'Open Scope Z_scope.\n' + DEFS + 'Eval vm_compute in %s.\n' % model_text(sc)))
    out = C.run_many_cases(work, files, timeout=300, par=12)
    mism, errors = [], []
    for (name, _), (sc, res) in zip(files, sel):
        rc, o = out[name]
        if rc != 0:
            errors.append((name, o[-400:]))
            continue
        got = C.parse_list_list(o)
        if got is None:
            errors.append((name, 'unparsable: ' + o[-300:]))
            continue
        impl = observe_impl(sc, res)
        model = got[:-1]           # (the last row: the final states of the model: IDLE / no subscription / IDLE / IDLE / 1)
        if got[-1] != [1, 0, 1, 1, 1]:
            mism.append((sc, 'final-state', got[-1], [1, 0, 1, 1, 1]))
        elif model != impl:
            i = next((j for j in range(max(len(model), len(impl))) if j >= len(model) or j >= len(impl) or model[j] != impl[j]), None)
            mism.append((sc, i, model[i] if i is not None and i < len(model) else None, impl[i] if i is not None and i < len(impl) else None))
    return len(sel), mism, errors

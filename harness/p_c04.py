"""C04 — address claiming yields unique addresses; the lowest NAME keeps a contested one."""
import common as C
import sprop, gen_ca

FILES = ['theories/Base.v', 'theories/gen/Codec.v', 'theories/gen/Tp21Gen.v', 'theories/gen/CaGen.v', 'theories/CodecGlue.v',
         'theories/Model21.v', 'theories/Replay21.v', 'proofs/CodecProofs.v', 'proofs/Flat.v', 'proofs/ClaimProofs.v',
         'theories/SkelDefs.v', 'theories/FlowDefs.v', 'theories/gen/SkelGen.v', 'proofs/FlowProofs.v', 'proofs/OrderProofs.v']
NONE, WAIT_VETO, NORMAL, CANNOT = 0, 1, 2, 3


def name_value(v):
    return v & ~(1 << 48)


def oracle(sc, res):
    v = []
    if any(e[2] == 'STORM' for e in res.trace):
        # "settles within bounded time": the claim exchange never ended (the harness cut the run after a bound on events)
        v.append(dict(kind='claim-exchange-never-ends', events=[e[3] for e in res.trace if e[2] == 'STORM'][0],
                      claims_on_the_bus=sum(1 for e in res.trace if e[2] == 'tx' and ((e[3] >> 8) & 0xFFFF) == 0xEEFF)))
        return v
    cas = []          # (stack, name, aac, final state, final addr)
    for i, sd in enumerate(sc['stacks']):
        for j, cd in enumerate(sd.get('cas', [])):
            st, addr, ann, started = res.cas[i][j]
            cas.append(dict(stack=i, name=name_value(cd['name']), aac=(cd['name'] >> 63) & 1, state=st, addr=addr, ann=ann,
                            started=any(e['op'] == 'ca_start' and e['s'] == i for e in sc['script'])))
    # who ever claimed which address (address-claimed frames on the bus, SA != 254)
    claimed = {}
    cannot = {}
    for e in res.trace:
        if e[2] == 'tx' and ((e[3] >> 8) & 0xFFFF) == 0xEEFF:
            sa = e[3] & 0xFF
            nm = sum(b << (8 * k) for k, b in enumerate(e[6]))
            if sa == 254:
                cannot[nm] = cannot.get(nm, 0) + 1
            else:
                claimed.setdefault(sa, set()).add(nm)
    for c in cas:
        if not c['started']:
            continue
        if c['state'] not in (NORMAL, CANNOT):
            v.append(dict(kind='not-settled', ca=c))
    normal = [c for c in cas if c['state'] == NORMAL]
    seen = {}
    for c in normal:
        if c['addr'] in seen:
            v.append(dict(kind='duplicate-address', address=c['addr'], names=[hex(seen[c['addr']]), hex(c['name'])]))
        seen[c['addr']] = c['name']
    for a, names in claimed.items():
        low = min(names)
        holder = [c for c in normal if c['addr'] == a]
        if not holder or holder[0]['name'] != low:
            v.append(dict(kind='lowest-name-does-not-keep', address=a, lowest=hex(low), holder=[hex(h['name']) for h in holder],
                          claimants=[hex(x) for x in sorted(names)]))
    for c in cas:
        if c['state'] == CANNOT:
            if c['aac']:
                v.append(dict(kind='aac-gave-up', ca=c))
            if cannot.get(c['name'], 0) < 1:
                v.append(dict(kind='cannot-claim-not-announced', ca=c))
            if c['addr'] is not None and c['addr'] != 254:
                v.append(dict(kind='cannot-claim-keeps-address', ca=c))
        if c['state'] == NORMAL and not c['aac']:
            pref = [cd for i, sd in enumerate(sc['stacks']) if i == c['stack'] for cd in sd['cas']][0]['addr']
            if c['addr'] != pref:
                v.append(dict(kind='fixed-ca-moved', ca=c))
    for j, js in enumerate(res.job):
        if js != 'alive':
            v.append(dict(kind='job-thread-' + js, stack=j))
    return v


def nontrivial(sc, res):
    n = sum(1 for e in res.trace if e[2] == 'tx' and ((e[3] >> 8) & 0xFFFF) == 0xEEFF)
    return n > len(sc['stacks'])          # at least one contest answer beyond the initial claims


def run(out, tier, rng, work):
    out.rule = ('2-4 real CAs on separate real stacks; NAME orderings random and near-equal; AAC on/off; preferred addresses equal/adjacent/'
                'distinct/mixed in the immediate or veto range; start times and claim delays on a grid before/inside/after the 250 ms veto '
                'windows; latencies {0,1us,5ms}; oracle at quiescence: settled, NORMAL addresses distinct, lowest NAME among the claimants '
                'of each address holds it, losers behave; handler logs replayed on the Coq model; non-trivial = a contest happened'
                ' A quarter of the scenarios on FD stacks; address 0 in 10 %.')
    out.assumptions = ['A1-A6 of DESIGN.md section 3', 'settle-time bound (T04.6) not proved; checked by the oracle at horizon = last claim + 4 s']
    sprop.run_stateful(out, 'C04', tier, rng, work, FILES, lambda r, k: (gen_ca.gen_late_third(r) if k % 10 == 9 else gen_ca.gen_claim(r)), oracle, 150, 3000, nontrivial,
                       sample=lambda sc, res: dict(cas=[(hex(s['cas'][0]['name']), s['cas'][0]['addr']) for s in sc['stacks']],
                                                   script=sc['script'], final=res.cas))

"""oracle_tp.py — property-level oracles over observable traces for the transport properties (C01, C02, C05, C06,
C09, C10).  Written from the property texts and refpeer's SAE layouts; never uses the Coq model."""
from collections import Counter
import refpeer as R
from scen import payload


def registry(sc):
    """per stack: list of (cid, kind, filt)  kind 'ecu' with filt None|int, or 'ca' with the CA's address"""
    reg = []
    for sd in sc['stacks']:
        subs = []
        for s in sd.get('subs', []):
            subs.append((s['cid'], 'ecu', s.get('filt'), s.get('late') or 0))
        for cd in sd.get('cas', []):
            for cid in cd.get('subs', []):
                subs.append((cid, 'ca', cd.get('addr') if cd.get('bypass') else None, 0))
        reg.append(subs)
    return reg


def owners(sc, j, d, t=1 << 62):
    """does stack j accept destination d at time t (an ECU-level integer subscription or an operational CA owns it)"""
    sd = sc['stacks'][j]
    for s in sd.get('subs', []):
        if s.get('filt') == d and (s.get('late') or 0) <= t:
            return True
    for cd in sd.get('cas', []):
        if cd.get('bypass') and cd.get('addr') == d:
            return True
    return False


def receivers(sc, reg, src_stack, d, t=1 << 62):
    """[(stack, cid)] that must receive a message with destination d sent by src_stack at time t"""
    out = []
    for j, subs in enumerate(reg):
        if j == src_stack or not sc['stacks'][j].get('on_bus', True):
            continue
        if d == 255:
            out += [(j, cid) for cid, kind, filt, late in subs if late <= t]
        elif owners(sc, j, d, t):
            for cid, kind, filt, late in subs:
                if late <= t and ((kind == 'ecu' and (filt is None or filt == d)) or (kind == 'ca' and filt == d)):
                    out.append((j, cid))
    return out


def expected_pgn(dp, pf, ps):
    return (dp % 2) * 65536 + (pf % 256) * 256 + ((ps % 256) if pf >= 240 else 0)


def dest_of(pf, ps):
    return 255 if (pf >= 240 or ps == 255) else ps


def expected_callbacks(sc, res, lost_ok=False):
    """Counter of (stack, cid, pgn, sa, payload-tuple) expected from the accepted sends; acks separately"""
    reg = registry(sc)
    exp = Counter()
    acks = Counter()
    sends = [(ev, r) for ev, r in res.returns if ev['op'] == 'send']
    if sc.get('meta', {}).get('callback_sends'):
        # messages are also submitted from inside callbacks: every send_pgn call of the run, with what it returned
        sends = [(dict(op='send', s=e[1], t=e[0], a=[e[3], e[4], e[5], e[6], e[7], list(e[10])]), e[9]) for e in res.trace if e[2] == 'send_pgn']
    for ev, r in sends:
        if ev['op'] != 'send' or r is not True:
            continue
        dp, pf, ps, prio, sa, pl = ev['a'][:6]
        data = tuple(payload(pl))
        d = dest_of(pf, ps)
        pgn = expected_pgn(dp, pf, ps)
        rec = receivers(sc, reg, ev['s'], d, ev.get('t', 1 << 62))
        for j, cid in rec:
            exp[(j, cid, pgn, sa, data)] += 1
        multi = len(data) > (8 if sc['stacks'][ev['s']].get('dll', 'j1939-21') == 'j1939-21' else 60)
        if multi and d != 255 and rec and sc['stacks'][ev['s']].get('dll', 'j1939-21') == 'j1939-21':
            # connection-mode: the completed transfer is reported to the originator's listeners for `sa`
            n = (len(data) + 6) // 7
            ack = tuple(R.ref_eom_ack(len(data), n, pgn))
            for cid, kind, filt, late in reg[ev['s']]:
                if (kind == 'ecu' and (filt is None or filt == sa)) or (kind == 'ca' and filt == sa):
                    acks[(ev['s'], cid, pgn, d, ack)] += 1
    return exp, acks


def observed_callbacks(res):
    obs = Counter()
    fd = [sd.get('dll', 'j1939-21') != 'j1939-21' for sd in res.sc['stacks']]
    for e in res.trace:
        if e[2] == 'cb':
            t, j, _, cid, prio, pgn, sa, data = e
            if fd[j] and len(data) == 12 and (data[0] & 0xF) == 3 and data[7] == 0xFF and data[8] == 0xFF:
                continue     # FD end-of-message acknowledge reported to the originator's listeners
            obs[(j, cid, pgn, sa, tuple(data))] += 1
    return obs


def check_exactly_once(sc, res):
    """returns list of violation dicts (empty = holds)"""
    exp, acks = expected_callbacks(sc, res)
    want = exp + acks
    obs = observed_callbacks(res)
    v = []
    for k in want:
        if obs.get(k, 0) < want[k]:
            kind = 'ack-missing' if k in acks and k not in exp else 'missing-delivery'
            v.append(dict(kind=kind, stack=k[0], cid=k[1], pgn=k[2], sa=k[3], length=len(k[4]), expected=want[k], observed=obs.get(k, 0)))
    for k in obs:
        if obs[k] > want.get(k, 0):
            # classify: same (stack,cid,sa,len) but different pgn / bytes?
            near = [w for w in want if w[0] == k[0] and w[1] == k[1] and w[3] == k[3]]
            if any(w[4] == k[4] and w[2] != k[2] for w in near):
                kind = 'wrong-pgn'
            elif any(w[2] == k[2] and w[4] != k[4] for w in near):
                kind = 'corrupt-payload'
            elif want.get(k, 0) > 0:
                kind = 'duplicate-delivery'
            else:
                kind = 'unexpected-delivery'
            v.append(dict(kind=kind, stack=k[0], cid=k[1], pgn=k[2], sa=k[3], length=len(k[4]), expected=want.get(k, 0), observed=obs[k], data=list(k[4])[:16]))
    for j, js in enumerate(res.job):
        if js != 'alive':
            v.append(dict(kind='job-thread-' + js, stack=j))
    for j, e in enumerate(res.empty):
        if not e:
            v.append(dict(kind='session-left', stack=j))
    return v

"""dm14h.py — DM14 memory access between a real client facade and a real server facade on two real stacks
(virtual time).  Scenario = list of operations executed back to back by one client thread; the server
application answers from its notify callback (in its own simulated thread, like the polling loop of the tests)."""
import scen, stack as S, vts

C2_ADDR = 0xFA
C_ADDR, S_ADDR, X_ADDR = 0xF9, 0xD4, 0xA7


def key_fn2(seed):
    return (seed * 3 + 11) & 0xFFFF


def key_fn(seed):
    return seed ^ 0xFFFF


def runner(sc):
    import j1939
    sim = vts.Sim(jitters=sc.get('jit', [1]))
    lat = sc.get('lat', [500])
    sim.latency = lambda c, src, dst: lat[c % len(lat)]
    sim.eager_wake = bool(sc.get('eager_wake'))     # a thread woken by a put runs before the putting call goes on
    res = scen.Result()
    res.sc = sc
    res.results = []        # per op: ('ok', value) | ('exc', type, text)
    res.served = []         # what the serving application saw / got
    res.times = []          # per op: [virtual time the call was made, virtual time it returned or raised]
    try:
        cl = S.Stack(sim, 'j1939-21', sc.get('max_cmdt', 8))
        sv = S.Stack(sim, 'j1939-21', sc.get('max_cmdt_server', sc.get('max_cmdt', 8)))
        cca = cl.add_ca(0x1111, C_ADDR, True)
        sca = sv.add_ca(0x2222, S_ADDR, True)
        mc = j1939.MemoryAccess(cca)
        ms = j1939.MemoryAccess(sca)
        seeds = iter(sc.get('seeds', [0xA55A] * 50))
        if sc.get('seedkey'):
            mc.set_seed_key_algorithm(key_fn if not sc.get('client_wrong_key') else (lambda s: (key_fn(s) + 1) & 0xFFFF))
            ms.set_seed_key_algorithm(key_fn)
            ms.set_seed_generator(lambda: next(seeds))
        mc2 = None
        if sc.get('intruder', {}).get('mode') == 'second-ca':
            # the second requester is another controller application on the CLIENT's ECU, with a MemoryAccess of its own
            cca2 = cl.add_ca(0x1112, C2_ADDR, True)
            mc2 = j1939.MemoryAccess(cca2)
            if sc.get('seedkey'):
                mc2.set_seed_key_algorithm(key_fn)
        res.second = []
        opi = {'i': -1}

        def cur():
            return sc['ops'][opi['i']] if 0 <= opi['i'] < len(sc['ops']) else {}

        def proceed_fn(command, address, pointer_type, length, object_count, key, sa, level, seed):
            res.served.append(dict(ev='proceed', t=sim.now, command=command, address=address, pointer_type=pointer_type, length=length,
                                   object_count=object_count, key=key, sa=sa, level=level, seed=seed, op=opi['i']))
            return not cur().get('refuse_proceed', False)

        def notify_fn():
            op = cur()
            res.served.append(dict(ev='notify', t=sim.now, op=opi['i']))

            def app():
                if op.get('respond_false') is not None:
                    r = ms.respond(False, [], op['respond_false'], op.get('edcp', 0xFF))
                elif op['kind'] == 'read':
                    r = ms.respond(True, list(op['server_data']), 0xFFFF, 0xFF)
                else:
                    r = ms.respond(True, [], 0xFFFF, 0xFF)
                res.served.append(dict(ev='respond-returned', t=sim.now, data=(list(r) if r is not None else None), op=opi['i']))
            if op.get('respond_inline') and op['kind'] == 'read' and op.get('respond_false') is None:
                guarded(app)         # the serving application answers a read from inside the notification itself
            else:
                sim.at_thread(sim.now + op.get('server_think', 2000), lambda: guarded(app), 'server-app')

        def guarded(fn):
            try:
                fn()
            except Exception as ex:
                res.served.append(dict(ev='respond-exc', t=sim.now, exc=type(ex).__name__, text=str(ex), op=opi['i']))
        ms.set_proceed(proceed_fn)
        ms.set_notify(notify_fn)
        if sc.get('server_absent'):
            sv.on_bus = False

        def client():
            for i, op in enumerate(sc['ops']):
                opi['i'] = i
                if op.get('absent'):
                    sv.on_bus = False
                if op.get('rekey'):
                    # both sides are given another seed/key algorithm between two operations (the seeds may repeat)
                    mc.set_seed_key_algorithm(key_fn2)
                    ms.set_seed_key_algorithm(key_fn2)
                t_begin = sim.now
                res.times.append([t_begin, None])
                try:
                    if op['kind'] == 'read':
                        r = mc.read(S_ADDR, op.get('direct', 1), op['address'], op['count'], op.get('size', 1), op.get('signed', False),
                                    op.get('raw', False), op.get('timeout', 1))
                        res.results.append(('ok', list(r) if r is not None else None))
                    else:
                        r = mc.write(S_ADDR, op.get('direct', 1), op['address'], list(op['values']), op.get('size', 1), op.get('timeout', 1))
                        res.results.append(('ok', r))
                except Exception as ex:
                    res.results.append(('exc', type(ex).__name__, str(ex)))
                res.times[-1][1] = sim.now
                if op.get('absent'):
                    sv.on_bus = True
                # idle gap between operations (the blocking calls park this thread; emulate a sleep with a timed wait)
                if op.get('gap', 0.3) > 0:       # gap 0: the application issues its next request back to back
                    q = vts.FakeQueue()
                    try:
                        q.get(True, op.get('gap', 0.3))
                    except Exception:
                        pass
        sim.at_thread(1000, lambda: guarded(client), 'client')
        for inj in sc.get('inject', []):
            fr = (inj['id'], True, list(inj['data']), False, {})
            sim.schedule(inj['t'], 'deliver', (inj['to'], fr, 'listener'))
        if sc.get('intruder'):
            install_intruder(sim, sc['intruder'], res, mc2)
        sim.run_until(sc['horizon'])
        res.trace = list(sim.trace)
        res.job = [cl.job_state(), sv.job_state()]
        res.empty = [cl.tables_empty(), sv.tables_empty()]
        res.states = dict(client_facade=mc.state.name, client_query=mc.query.state.name, server_facade=ms.state.name,
                          server=ms.server.state.name, server_sa=ms.server.sa,
                          client_subs=len(cl.ecu._subscribers), server_subs=len(sv.ecu._subscribers))
        res.end = sim.now
    finally:
        sim.close()
    return res


def install_intruder(sim, spec, res, mc2=None):
    """inject DM14 frames from another source (or from the client's address with another pointer) after the n-th bus frame"""
    import refpeer as R
    state = {'n': 0, 'done': 0}
    orig = sim.transmit

    def transmit(src, frame):
        orig(src, frame)
        state['n'] += 1
        if state['n'] == spec['after'] and state['done'] < 1 and spec.get('mode') == 'second-ca':
            state['done'] += 1

            def second():
                try:
                    r = mc2.read(S_ADDR, 1, 0x11223344, 1, 1, False, True, 1)
                    res.second.append(('ok', list(r) if r is not None else None))
                except Exception as ex:
                    res.second.append(('exc', type(ex).__name__, str(ex)))
            sim.trace.append((sim.now, 9, 'intruder', 0, ()))
            sim.at_thread(sim.now + 60, second, 'client2')
        elif state['n'] == spec['after'] and state['done'] < 1:
            state['done'] += 1
            for k in range(spec.get('times', 1)):
                sa = spec['sa']
                data = spec['data']
                cid = R.ref_can_id(6, 0xD900 + S_ADDR, sa)
                sim.trace.append((sim.now, 9, 'intruder', cid, tuple(data)))
                sim.schedule(sim.now + max(sim.latency(0, 0, 1), 1) + 60 + k * 30, 'deliver', (1, (cid, True, list(data), False, {}), 'listener'))
    sim.transmit = transmit

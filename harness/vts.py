"""vts.py — deterministic virtual-time execution of the REAL python-can-j1939 code (DESIGN.md section 3 and
Appendix B).  No line of /repo is changed: the names `time`, `queue`, `threading` are replaced in the
namespaces of the package's modules; the ECU is built with `send_message=` the virtual bus.

One Sim is active at a time (the patched module names are process-global)."""
import sys, os, ctypes, time as _realtime, threading as _threading, heapq, queue as _queue, types

K_SPIN = 3000           # iterations of the job loop at one instant that count as a busy spin


class SimKill(BaseException):
    pass


class SimBlocked(BaseException):
    """a simulated thread blocks for ever (put on a full bounded queue that only itself would drain)"""


class SimSpin(BaseException):
    pass


class SimStall(BaseException):
    """a handler of the package did not return: no event of the simulation for STALL_WALL seconds of wall-clock time while
    code of the package was running (no virtual time passes inside a handler, so this is an endless loop).  Raised
    asynchronously in the thread that runs it, so that the run goes on and the stall is part of the trace."""


STALL_WALL = float(os.environ.get('J1939_STALL_WALL', '10'))
STORMS = [0]       # runs of this process that were cut as endless exchanges; from the third on the cut comes eight times earlier
MAX_EVENTS = int(os.environ.get('J1939_MAX_EVENTS', '600000'))      # scheduler events per run (the largest legitimate scenario uses < 100000)


class VT(int):
    """virtual instant / duration in integer microseconds; floats (seconds) are rounded to whole µs"""
    __slots__ = ()

    @staticmethod
    def conv(o):
        if isinstance(o, VT):
            return int(o)
        if isinstance(o, bool):
            return int(o) * 1000000
        if isinstance(o, int):
            return o * 1000000          # plain ints in the code are seconds (e.g. cycletime=1)
        if isinstance(o, float):
            return int(round(o * 1000000))
        return NotImplemented

    def __add__(self, o):
        c = VT.conv(o)
        return c if c is NotImplemented else VT(int(self) + c)
    __radd__ = __add__

    def __sub__(self, o):
        c = VT.conv(o)
        return c if c is NotImplemented else VT(int(self) - c)

    def __rsub__(self, o):
        c = VT.conv(o)
        return c if c is NotImplemented else VT(c - int(self))

    def _cmp(self, o):
        if isinstance(o, VT):
            return int(o)
        if isinstance(o, (int, float)):
            if o == 0:
                return 0
            return VT.conv(o)
        return None

    def __lt__(self, o): return int(self) < self._cmp(o)
    def __le__(self, o): return int(self) <= self._cmp(o)
    def __gt__(self, o): return int(self) > self._cmp(o)
    def __ge__(self, o): return int(self) >= self._cmp(o)
    def __eq__(self, o):
        c = self._cmp(o)
        return c is not None and int(self) == c
    def __ne__(self, o): return not self.__eq__(o)
    __hash__ = int.__hash__

    def __repr__(self):
        return 'VT(%d)' % int(self)


def us(x):
    """seconds (float/int/VT) -> integer µs"""
    if isinstance(x, VT):
        return int(x)
    return int(round(x * 1000000))


class SimThread:
    def __init__(self, sim, target, name):
        self.sim, self.target, self.name = sim, target, name
        self.sem = _threading.Semaphore(0)
        self.state = 'new'          # new | running | waiting | dead
        self.exc = None
        self.gen = 0
        self.waitq = None
        self.timed_out = False
        self.os_thread = _threading.Thread(target=self._run, daemon=True, name='sim:' + name)
        self.owner = None           # stack index for job threads
        self.daemon = True

    def _run(self):
        self.sem.acquire()
        try:
            if self.sim.killing:
                return
            self.state = 'running'
            self.target()
        except SimKill:
            pass
        except SimSpin:
            self.exc = 'SPIN'
        except SimBlocked:
            self.exc = 'BLOCKED-ON-A-FULL-QUEUE'
        except BaseException as ex:      # the thread died (e.g. KeyError in the job thread)
            self.exc = type(ex).__name__
            self.exc_text = str(ex)
        finally:
            self.state = 'dead'
            self.sim.main_sem.release()

    def switch_in(self):
        """scheduler -> thread; returns when the thread parks or ends"""
        prev = self.sim.current
        self.sim.current = self
        self.sim.progress += 1
        self.state = 'running'
        self.sem.release()
        self.sim.main_sem.acquire()
        self.sim.current = prev

    def park(self):
        """thread -> scheduler"""
        self.sim.progress += 1
        self.sim.main_sem.release()
        self.sem.acquire()
        if self.sim.killing:
            raise SimKill()
        self.state = 'running'


class FakeQueue:
    def __init__(self, maxsize=0):
        self.items = []
        self.waiter = None
        self.sim = Sim.active
        self.puts = 0
        self.maxsize = maxsize or 0

    def put(self, item, block=True, timeout=None):
        if self.maxsize > 0 and len(self.items) >= self.maxsize:
            # a bounded queue that is full: a non-blocking put fails; a blocking put from the thread that is the only
            # consumer never returns; from the application side it waits until the consumer runs (the token is pending anyway)
            if not block:
                raise _queue.Full()
            if self.sim.current is not None:
                raise SimBlocked()
            return
        self.puts += 1
        self.items.append(item)
        w = self.waiter
        if w is not None and w.state == 'waiting':
            self.waiter = None
            w.gen += 1
            w.timed_out = False
            w.state = 'runnable'
            if getattr(self.sim, 'eager_wake', False) and self.sim.current is None:
                # pre-emptive schedule: the woken thread runs at once, before the call that woke it has returned
                # (the application thread is descheduled right after the put)
                w.switch_in()
            else:
                self.sim.schedule(self.sim.now, 'resume', w)

    def qsize(self):
        return len(self.items)

    def empty(self):
        return not self.items

    def get(self, block=True, timeout=None):
        sim = self.sim
        th = sim.current
        if block and timeout is not None and timeout < 0:
            raise ValueError("'timeout' must be a non-negative number")       # as queue.Queue.get does
        if block and th is not None:
            sim.on_wait(th, timeout)
        if self.items:
            return self.items.pop(0)
        if not block:
            raise _queue.Empty()
        if th is None:
            raise RuntimeError('blocking queue.get outside a simulated thread')
        th.state = 'waiting'
        th.waitq = self
        self.waiter = th
        th.gen += 1
        if timeout is not None:
            sim.schedule(sim.now + us(timeout) + sim.next_jitter(), 'timeout', (th, th.gen))
        th.park()
        th.waitq = None
        if self.items:
            return self.items.pop(0)
        raise _queue.Empty()


class FakeLock:
    """stands for threading.Lock inside the package.  The simulation runs one thread at a time, so a real lock taken twice by
    the same flow of control (a frame handled inside the thread's own send call, say) would block the whole run for good —
    which is what it does to the real program: that thread never runs again.  Here the second acquire ends the thread (or
    the handler) with SimStall and leaves a STALL entry in the trace, like a handler that does not return."""
    reentrant = False

    def __init__(self):
        self.owner, self.depth = None, 0

    def _me(self):
        sim = Sim.active
        return (sim.current if sim is not None and sim.current is not None else 'main')

    def acquire(self, blocking=True, timeout=-1):
        sim, me = Sim.active, self._me()
        if self.owner is None or (self.reentrant and self.owner is me):
            self.owner, self.depth = me, self.depth + 1
            return True
        if not blocking:
            return False
        if self.owner is me:
            if sim is not None:
                th = sim.current
                sim.trace.append((sim.now, th.owner if (th is not None and th.owner is not None) else -1, 'STALL',
                                  (th.name if th is not None else 'handler') + ':blocked-on-a-lock-it-holds'))
                sim.stalls += 1
            raise SimStall()
        # held by another thread of the simulation: let the others run until it is free
        for _ in range(10000):
            if self.owner is None:
                break
            if sim is None:
                break
            if sim.current is not None:
                sim.schedule(sim.now, 'resume', sim.current)
                sim.current.state = 'runnable'
                sim.current.park()
            elif isinstance(self.owner, SimThread) and self.owner.state != 'dead':
                self.owner.switch_in()
            else:
                break
        if self.owner is not None:
            raise SimStall()
        self.owner, self.depth = me, 1
        return True

    def release(self):
        if self.owner is None:
            raise RuntimeError('release unlocked lock')
        self.depth -= 1
        if self.depth <= 0:
            self.owner, self.depth = None, 0

    def locked(self):
        return self.owner is not None

    def __enter__(self):
        self.acquire()
        return True

    def __exit__(self, *a):
        self.release()
        return False


class FakeRLock(FakeLock):
    reentrant = True


class FakeThreadCls:
    """stands for threading.Thread inside the package"""
    def __init__(self, target=None, name='thread', args=(), kwargs=None, daemon=None):
        self.sim = Sim.active
        self.st = SimThread(self.sim, (lambda: target(*args, **(kwargs or {}))), name)
        self.daemon = True
        self.name = name
        self.ident = id(self)
        if not hasattr(self.sim, 'fake_threads'):
            self.sim.fake_threads = []
        self.sim.fake_threads.append(self)

    def start(self):
        self.st.os_thread.start()
        self.sim.threads.append(self.st)
        self.sim.schedule(self.sim.now, 'start', self.st)

    def join(self, timeout=None):
        return

    def is_alive(self):
        return self.st.state != 'dead'


def fake_current_thread():
    """threading.current_thread() inside the package: the package's own Thread object when one of its threads is running"""
    real = _threading.current_thread()
    sim = Sim.active
    for ft in (getattr(sim, 'fake_threads', []) if sim is not None else []):
        if ft.st.os_thread is real:
            return ft
    return real


def fake_get_ident():
    t = fake_current_thread()
    return t.ident if isinstance(t, FakeThreadCls) else _threading.get_ident()


class Sim:
    active = None

    def __init__(self, jitters=(1,), horizon=None):
        self.now = 0
        self.seq = 0
        self.events = []
        self.threads = []
        self.current = None
        self.main_sem = _threading.Semaphore(0)
        self.killing = False
        self.jitters = list(jitters)
        self.jit_i = 0
        self.trace = []             # global observable trace
        self.stacks = []
        self.frame_counter = 0
        self.faults = []            # dicts: {'drop': k} | {'silent': [stack, k]}
        self.latency = lambda counter, frm, to: 1
        self.last_delivery = {}
        self.pending = {}
        self.wait_hook = None
        self.tx_count = {}
        self.progress = 0
        self.stalls = 0
        self.in_run = False
        self.closed = False
        self.main_ident = _threading.get_ident()
        Sim.active = self
        patch_modules(self)
        self.watchdog = _threading.Thread(target=self._watchdog, daemon=True, name='sim:watchdog')
        self.watchdog.start()

    def _watchdog(self):
        last, since = -1, _realtime.monotonic()
        while not self.closed:
            _realtime.sleep(0.25)
            if self.progress != last or not self.in_run:
                last, since = self.progress, _realtime.monotonic()
                continue
            if _realtime.monotonic() - since > (STALL_WALL if not self.stalls else 2.0):
                th = self.current
                tid = th.os_thread.ident if th is not None else self.main_ident
                self.trace.append((self.now, th.owner if (th is not None and th.owner is not None) else -1, 'STALL',
                                   th.name if th is not None else 'handler'))
                self.stalls += 1
                ctypes.pythonapi.PyThreadState_SetAsyncExc(ctypes.c_ulong(tid), ctypes.py_object(SimStall))
                last, since = -1, _realtime.monotonic()

    # ---- time
    def time(self):
        th = self.current
        if th is not None and th.owner is not None:
            self.stacks[th.owner].on_time_call()
        return VT(self.now)

    def next_jitter(self):
        j = self.jitters[self.jit_i % len(self.jitters)]
        self.jit_i += 1
        return j

    def schedule(self, t, kind, payload):
        self.seq += 1
        heapq.heappush(self.events, (int(t), self.seq, kind, payload))

    def on_wait(self, th, timeout):
        if th.owner is not None:
            self.stacks[th.owner].on_job_wait(timeout)

    # ---- main loop
    def run_until(self, horizon):
        self.in_run = True
        try:
            self._run_until(horizon)
        finally:
            self.in_run = False

    def _run_until(self, horizon):
        while self.events and self.events[0][0] <= horizon:
            t, _, kind, p = heapq.heappop(self.events)
            self.progress += 1
            if self.progress > (MAX_EVENTS if STORMS[0] < 2 else MAX_EVENTS // 8):
                STORMS[0] += 1
                # an exchange that never ends (frames answering frames for ever): cut the run, the storm is part of the trace
                self.trace.append((self.now, -1, 'STORM', self.progress))
                self.events.clear()
                break
            self.now = max(self.now, t)
            if kind == 'start':
                p.switch_in()
            elif kind == 'resume':
                if p.state == 'runnable':
                    p.switch_in()
            elif kind == 'timeout':
                th, gen = p
                if th.state == 'waiting' and th.gen == gen:
                    if th.waitq is not None:
                        th.waitq.waiter = None
                    th.timed_out = True
                    th.switch_in()
            elif kind == 'deliver':
                j, frame, via = p
                if via == 'bus':
                    self.pending[j] -= 1
                    via = 'listener'
                self.stacks[j].deliver(frame, via)
            elif kind == 'call':
                p()
            elif kind == 'thread':
                fn, name = p
                st = SimThread(self, fn, name)
                st.os_thread.start()
                self.threads.append(st)
                st.switch_in()
        self.now = max(self.now, horizon)

    def at(self, t, fn):
        self.schedule(t, 'call', fn)

    def at_thread(self, t, fn, name='app'):
        self.schedule(t, 'thread', (fn, name))

    def close(self):
        """unwind every parked simulated thread"""
        self.killing = True
        self.closed = True
        for th in self.threads:
            if th.state != 'dead':
                th.sem.release()
                self.main_sem.acquire()
        for th in self.threads:
            th.os_thread.join(timeout=2)
        if Sim.active is self:
            Sim.active = None

    # ---- bus
    def transmit(self, src, frame):
        """frame = (can_id, ext, data(list), fd). Offered to every other stack (A4)."""
        self.frame_counter += 1
        c = self.frame_counter
        self.tx_count[src] = self.tx_count.get(src, 0) + 1
        for f in self.faults:
            if f.get('drop') == c:
                self.trace.append((self.now, src, 'dropped', c))
                return
            if 'silent' in f and f['silent'][0] == src and self.tx_count[src] >= f['silent'][1] and self.now < f.get('until', 1 << 62):
                self.trace.append((self.now, src, 'silenced', c))
                return
        for j, st in enumerate(self.stacks):
            if j == src or not st.on_bus:
                continue
            L = self.latency(c, src, j)
            if L == 0 and self.pending.get(j, 0) == 0:
                st.deliver(frame, 'listener')
            else:
                t = max(self.now + L, self.last_delivery.get(j, 0))
                self.last_delivery[j] = t
                self.pending[j] = self.pending.get(j, 0) + 1
                self.schedule(t, 'deliver', (j, frame, 'bus'))


class FakeTime:
    def __init__(self, sim): self.sim = sim
    def time(self): return self.sim.time()
    def sleep(self, d): raise RuntimeError('time.sleep inside the package is not expected')


def patch_modules(sim):
    import j1939  # noqa
    ft = FakeTime(sim)
    fq = types.SimpleNamespace(Queue=FakeQueue, Empty=_queue.Empty, Full=_queue.Full)
    fth = types.SimpleNamespace(Thread=FakeThreadCls, Event=_threading.Event, Lock=FakeLock, RLock=FakeRLock,
                                current_thread=fake_current_thread, get_ident=fake_get_ident, main_thread=_threading.main_thread,
                                Semaphore=_threading.Semaphore, Condition=_threading.Condition, Timer=_threading.Timer, local=_threading.local)
    import time as _real_time
    # every module of the package that refers to the clock, to queues or to threads — whichever modules those are today
    for mn in sorted(k for k in sys.modules if k == 'j1939' or k.startswith('j1939.')):
        m = sys.modules.get(mn)
        if m is None or not isinstance(m, types.ModuleType):
            continue
        t = m.__dict__.get('time')
        if t is _real_time or isinstance(t, FakeTime):
            m.time = ft
        elif t is _real_time.time:
            m.time = ft.time                     # (from time import time)
        q = m.__dict__.get('queue')
        if q is _queue or isinstance(q, types.SimpleNamespace):
            m.queue = fq
        th = m.__dict__.get('threading')
        if th is _threading or isinstance(th, types.SimpleNamespace):
            m.threading = fth
        if mn.endswith('j1939_22'):
            m.print = lambda *a, **k: None      # the module reports unsupported multi-PG formats with print()

"""scen.py — scenario interpreter: builds real stacks under vts.Sim from a JSON-able scenario, runs it,
returns the observable trace, per-stack handler logs and summaries (DESIGN.md Appendix C)."""
import json, hashlib
import vts, stack as S


def lcg_bytes(seed, n):
    x = seed % (2 ** 31)
    out = []
    for _ in range(n):
        x = (x * 1103515245 + 12345) % (2 ** 31)
        out.append((x >> 16) & 0xFF)
    return out


def payload(spec):
    if isinstance(spec, dict):
        return lcg_bytes(spec['seed'], spec['len'])
    return list(spec)


class Result:
    pass


def run(sc, keep_sim=False, hold=None):
    import j1939
    sim = vts.Sim(jitters=sc.get('jit', [1]))
    lat = sc.get('lat', [1])
    sim.latency = lambda c, src, dst: lat[(c * 7 + dst * 3 + src) % len(lat)]
    sim.faults = sc.get('faults', [])
    sim.tx_time = sc.get('tx_time', 0)
    sim.eager_wake = bool(sc.get('eager_wake'))
    sim.reuse_buffers = bool(sc.get('reuse_buffers'))
    stacks = []
    res = Result()
    res.sc = sc
    res.returns = []
    try:
        for sd in sc['stacks']:
            st = S.Stack(sim, sd.get('dll', 'j1939-21'), sd.get('max_cmdt', 1), sd.get('cmdt_iv'), sd.get('bam_iv'),
                         on_bus=sd.get('on_bus', True))
            stacks.append(st)
            for sub in sd.get('subs', []):
                cb = st.cb(sub['cid'], 'sub', script=_script(sub.get('script'), st))
                if sub.get('late') is not None:
                    # a listener the application binds while the stack is already running (and has already seen traffic)
                    sim.at(sub['late'], lambda st=st, cb=cb, sub=sub: st.subscribe(cb, sub.get('filt')))
                else:
                    st.subscribe(cb, sub.get('filt'))
            for ci, cd in enumerate(sd.get('cas', [])):
                st.add_ca(cd['name'], cd.get('addr'), cd.get('bypass', False), cd.get('accept_all', False), cd.get('own_hook', False))
                for cid in cd.get('subs', []):
                    st.ca_subscribe(ci, st.cb(cid, 'sub'))
                for cid in cd.get('req', []):
                    # (req_scripts: what the application does inside that request callback)
                    st.ca_subscribe_request(ci, st.cb(cid, 'req', script=_script((cd.get('req_scripts') or {}).get(str(cid)), st)))
        for te in sc.get('tx_errors', []):
            # {'s': stack, 'nth': k}: the k-th frame that stack hands to the driver is refused with can.CanError
            stacks[te['s']].tx_error_at = set(getattr(stacks[te['s']], 'tx_error_at', set())) | {te['nth']}
        if hold and hold.get('reader'):
            install_reader_hold(sim, stacks, hold)
        elif hold:
            install_hold(sim, stacks, hold)
        for hk in sc.get('on_tx', []):
            # {'s': stack, 'pgn16': PGN bits 8..23 of the id to match (e.g. 0xEEFF), 'nth': which match, 'ops': [...]}: the ops run as
            # application calls of that node while its nth matching frame is being handed to the bus
            def mk(hk):
                state = {'n': 0}

                def hook(can_id, data):
                    if ((can_id >> 8) & 0xFFFF) != hk['pgn16']:
                        return
                    if 'data0' in hk and (not data or data[0] != hk['data0']):
                        return
                    state['n'] += 1
                    if state['n'] == hk.get('nth', 1):
                        for op in hk.get('ops', []):
                            _mk_call(sim, stacks, dict(op, s=hk['s'], t=sim.now), res)()
                        for fr in hk.get('deliver', []):
                            # a frame of the peer that reaches this node while its own frame is still being handed to the
                            # bus (the reader thread runs inside the send call)
                            stacks[hk['s']].deliver((fr['id'], True, list(fr['data']), fr.get('fd', False)), 'listener')
                return hook
            st = stacks[hk['s']]
            st.tx_hooks = getattr(st, 'tx_hooks', []) + [mk(hk)]
        for ev in sc.get('script', []):
            sim.at(ev['t'], _mk_call(sim, stacks, ev, res))
        for inj in sc.get('inject', []):
            fr = (inj['id'], inj.get('ext', True), list(inj['data']), inj.get('fd', False),
                  {'remote': inj.get('remote', False), 'error': inj.get('error', False)})
            sim.schedule(inj['t'], 'deliver', (inj['to'], fr, inj.get('via', 'listener')))
        sim.run_until(sc['horizon'])
        res.trace = list(sim.trace)
        res.stacks = stacks
        res.job = [st.job_state() for st in stacks]
        res.empty = [st.tables_empty() for st in stacks]
        res.outs = [list(st.outs) for st in stacks]
        res.oplog = [list(st.oplog) for st in stacks]
        res.summary = [st.summary() for st in stacks]
        res.cas = [[(ca._device_address_state, ca._device_address, ca._device_address_announced, ca._started) for ca in st.cas] for st in stacks]
        res.end = sim.now
    finally:
        if getattr(sim, 'reader_tracer', None) is not None:
            import sys
            sys.settrace(None)
        if not keep_sim:
            sim.close()
        else:
            res.sim = sim
    return res


def _script(spec, st):
    """callback scripts: list of {'op':..} performed inside the callback"""
    if not spec:
        return []
    acts = []
    for a in spec:
        acts.append(lambda stack, a=a: _do(stack, a))
    return acts


def _do(st, a):
    op = a['op']
    if op == 'remove_timer':
        st.remove_timer(st.cbs.get(a['cid']) or st.cb(a['cid'], 'timer'), via_ca=a.get('ca'))
    elif op == 'add_timer':
        st.add_timer(a['delta'] / 1e6, _timer_cb(st, a), None, via_ca=a.get('ca'))
    elif op == 'busy':
        # the callback blocks the job thread for d microseconds (at its k-th invocation only when 'at' is given)
        n = st.busy_count = getattr(st, 'busy_count', {})
        key = a.get('key', 0)
        n[key] = n.get(key, 0) + 1
        if a.get('at') is None or n[key] == a['at']:
            st.sim.trace.append((st.sim.now, st.idx, 'busy', a['d']))
            st.sim.now += a['d']
    elif op == 'park':
        # the callback takes d microseconds during which the REST of the system goes on (frames are received and handled by
        # the reader thread while the job thread is inside the callback)
        th = st.sim.current
        if th is not None:
            st.sim.trace.append((st.sim.now, st.idx, 'park', a['d']))
            th.state = 'waiting'
            th.gen += 1
            st.sim.schedule(st.sim.now + a['d'], 'timeout', (th, th.gen))
            th.park()
    elif op == 'raise':
        # the application's callback fails (at its first invocation only when 'once' is given)
        if a.get('once') is not None:
            done = st.once_done = getattr(st, 'once_done', set())
            if a['once'] in done:
                return
            done.add(a['once'])
        raise RuntimeError('application callback failed')
    elif op == 'unsubscribe':
        st.unsubscribe(st.cbs.get(a['cid']) or st.cb(a['cid'], 'sub'))
    elif op == 'subscribe':
        st.subscribe(_sub_cb(st, a), a.get('filt'))
    elif op == 'send':
        x = a['a']
        if a.get('if_pgn') is not None and getattr(st, 'last_cb_pgn', None) != a['if_pgn']:
            return          # the callback reacts to one PGN only
        if a.get('once') is not None:
            # performed at the first invocation of the callback only
            done = st.once_done = getattr(st, 'once_done', set())
            if a['once'] in done:
                return
            done.add(a['once'])
        st.send_pgn(x[0], x[1], x[2], x[3], x[4], payload(x[5]), (x[6] if len(x) > 6 else 0) / 1e6, x[7] if len(x) > 7 else 3)
    else:
        raise ValueError(op)


def _timer_cb(st, a):
    cid = a['cid']
    if cid in st.cbs:
        return st.cbs[cid]
    return st.cb(cid, 'timer', ret=a.get('ret', False), script=_script(a.get('script'), st))


def _sub_cb(st, a):
    cid = a['cid']
    if cid in st.cbs:
        return st.cbs[cid]
    return st.cb(cid, 'sub', script=_script(a.get('script'), st))


def _mk_call(sim, stacks, ev, res):
    def f():
        st = stacks[ev['s']]
        op = ev['op']
        if op in ('send', 'add_timer', 'remove_timer', 'subscribe', 'unsubscribe'):
            if op == 'send':
                x = ev['a']
                r = st.send_pgn(x[0], x[1], x[2], x[3], x[4], payload(x[5]), (x[6] if len(x) > 6 else 0) / 1e6, x[7] if len(x) > 7 else 3)
                res.returns.append((ev, r))
            else:
                _do(st, ev)
        elif op == 'ca_send':
            ca = st.cas[ev['ca']]
            x = ev['a']
            ev2 = dict(ev, _state=(ca._device_address_state, ca._device_address), _t0=len(sim.trace))
            if len(x) > 5:        # with a time limit (FD multi-PG collection): x[5] microseconds
                r = st.call(('ca_send_tl', sim.now, ev['ca'], x[0], x[1], x[2], x[3], payload(x[4]), x[5]),
                            lambda: ca.send_pgn(x[0], x[1], x[2], x[3], payload(x[4]), x[5] / 1e6))
            else:
                r = st.call(('ca_send', sim.now, ev['ca'], x[0], x[1], x[2], x[3], payload(x[4])),
                            lambda: ca.send_pgn(x[0], x[1], x[2], x[3], payload(x[4])))
            res.returns.append((dict(ev2, _t1=len(sim.trace)), r))
        elif op == 'ca_send_message':
            ca = st.cas[ev['ca']]
            x = ev['a']
            ev2 = dict(ev, _state=(ca._device_address_state, ca._device_address), _t0=len(sim.trace))
            r = st.call(('ca_send_message', sim.now, ev['ca'], x[0], x[1], payload(x[2])),
                        lambda: ca.send_message(x[0], x[1], payload(x[2])))
            res.returns.append((dict(ev2, _t1=len(sim.trace)), r))
        elif op == 'ca_request':
            ca = st.cas[ev['ca']]
            x = ev['a']
            ev2 = dict(ev, _state=(ca._device_address_state, ca._device_address), _t0=len(sim.trace))
            r = st.call(('ca_request', sim.now, ev['ca'], x[0], x[1], x[2]), lambda: ca.send_request(x[0], x[1], x[2]))
            res.returns.append((dict(ev2, _t1=len(sim.trace)), r))
        elif op == 'dm1_start':
            # a diagnostic service built on the CA: cyclic DM1 with the given lamps / trouble codes
            import j1939 as _j
            ca = st.cas[ev['ca']]
            dm = _j.Dm1(ca)
            st.dm1s = getattr(st, 'dm1s', []) + [dm]
            lamps, dtcs = ev.get('lamps', dict(pl=0, awl=1, rsl=0, mil=0)), ev.get('dtcs', [dict(spn=100, fmi=3, oc=1)])
            st.call(('dm1_start', sim.now, ev['ca']), lambda: dm.start_send(lambda: (dict(lamps), [dict(d) for d in dtcs]), ev.get('cycle', 100000) / 1e6))
        elif op == 'ca_unsubscribe_request':
            st.ca_unsubscribe_request(ev['ca'], ev['cid'])
        elif op == 'ca_subscribe':
            st.ca_subscribe(ev['ca'], st.cb(ev['cid'], 'sub'))       # a listener bound to the CA while the stack is running
        elif op == 'ca_start':
            ca = st.cas[ev['ca']]
            st.call(('ca_start', sim.now, ev['ca'], ev['delay']), lambda: ca.start(ev['delay'] / 1e6))
        elif op == 'ca_set_identity':
            # the application changes a field of the NAME object it built the CA with (the identity number, the lowest 21 bits)
            st.cas[ev['ca']]._name.identity_number = ev['value']
        elif op == 'ca_stop':
            ca = st.cas[ev['ca']]
            st.call(('ca_stop', sim.now, ev['ca']), lambda: ca.stop())
        elif op == 'remove_ca':
            # ecu.remove_ca(preferred address): the CA is taken out of the stack (its listeners stay registered); oracle only
            st.ecu.remove_ca(ev['addr'])
        elif op == 'probe':
            sim.trace.append((sim.now, -1, 'probe', tuple(0 if x.tables_empty() else 1 for x in stacks), tuple(x.job_state() for x in stacks),
                              tuple(0 if x.tables_empty(sessions_only=True) else 1 for x in stacks)))
        elif op == 'off_bus':
            st.on_bus = False
        elif op == 'on_bus':
            st.on_bus = True
        else:
            raise ValueError('unknown op ' + op)
    return f


def install_hold(sim, stacks, hold):
    """C08: park the job thread of stack hold['s'] at its hold['k']-th executed line (of the package's own
    code) for hold['d'] µs of virtual time."""
    import threading
    st = stacks[hold['s']]
    state = {'n': 0, 'done': False}
    job = st.job

    def tracer(frame, event, arg):
        fn = frame.f_code.co_filename
        if '/j1939/' not in fn:
            return None
        return local

    def local(frame, event, arg):
        if event == 'line' and not state['done'] and sim.current is job:
            state['n'] += 1
            if state['n'] == hold['k']:
                state['done'] = True
                st.held_at = (frame.f_code.co_filename.split('/')[-1], frame.f_lineno)
                job.state = 'waiting'
                job.gen += 1
                sim.schedule(sim.now + hold['d'], 'timeout', (job, job.gen))
                job.park()
        return local
    st.held_at = None
    st.hold_state = state
    orig_run = job.target

    def run_traced():
        import sys
        sys.settrace(tracer)
        try:
            orig_run()
        finally:
            sys.settrace(None)
    job.target = run_traced


def install_reader_hold(sim, stacks, hold):
    """C08, the other way round: the thread that feeds received frames in is suspended at the hold['k']-th line it executes inside the
    transport layer of stack hold['s'], and the job thread of that stack — woken for whatever reason (its wait has a time limit; a
    timer, another session) — runs a whole pass before the handler goes on."""
    import sys
    st = stacks[hold['s']]
    state = {'n': 0, 'done': False}
    st.held_at = None
    dll = st.ecu.j1939_dll

    def local(frame, event, arg):
        if event == 'line' and not state['done'] and sim.current is None:
            state['n'] += 1
            if state['n'] == hold['k']:
                state['done'] = True
                st.held_at = (frame.f_code.co_filename.split('/')[-1], frame.f_lineno)
                old = getattr(sim, 'eager_wake', False)
                sim.eager_wake = True
                try:
                    st.ecu._job_thread_wakeup_queue.put(1)          # the woken job thread runs now, until it waits again
                finally:
                    sim.eager_wake = old
        return local

    def tracer(frame, event, arg):
        if state['done'] or sim.current is not None:
            return None
        co = frame.f_code
        if '/j1939/j1939_2' in co.co_filename and co.co_name in ('_process_tp_cm', '_process_tp_dt', 'notify', '_process_multi_pg') \
                and frame.f_locals.get('self') is dll:
            return local
        return None
    sim.reader_tracer = tracer
    sys.settrace(tracer)


def sc_hash(sc):
    return hashlib.sha256(json.dumps(sc, sort_keys=True).encode()).hexdigest()[:16]

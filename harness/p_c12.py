"""C12 — timers fire when due; registrations mean what they say."""
import json
import common as C
import scen

PERIODS = [1000, 2000, 5000, 10000, 50000, 100000, 250000, 1000000, 3000000, 1500, 1001000, 1003000, 2002000]      # (the last four: no whole number of milliseconds, or one whose product with 1000 falls just below it in binary)


def gen(rng, small=False):
    """one ECU; history of up to 12 operations (top level + inside callbacks)"""
    jit = rng.choice([1, 1, 400])
    ops = []
    t = 1000
    ncb = rng.randint(1, 4)
    cbs = {}
    for c in range(1, ncb + 1):
        cbs[c] = dict(cid=c, ret=rng.random() < 0.5)
        # what the callback actually returns: "if it returns True it keeps being called ..., otherwise never again" — only
        # True (and what equals it) re-arms; other truthy values do not
        cbs[c]['retval'] = rng.choice([True, True, True, 1]) if cbs[c]['ret'] else rng.choice([False, False, None, 0, 2, 'again', [1], 0.5])
    # scripts inside timer callbacks (performed at every invocation): remove another timer / add a one-shot
    for c in cbs.values():
        if rng.random() < 0.3:
            other = rng.choice(list(cbs))
            r = rng.random()
            if r < 0.35:
                c['script'] = [dict(op='remove_timer', cid=other)]
            elif r < 0.55 and not c['ret']:
                # a callback that manages other timers: takes one off and registers two new one-shots in the same call (the list
                # of registrations is as long as before or longer afterwards)
                c['script'] = [dict(op='remove_timer', cid=other),
                               dict(op='add_timer', cid=110 + c['cid'], delta=rng.choice(PERIODS[2:7]), ret=False),
                               dict(op='add_timer', cid=120 + c['cid'], delta=rng.choice(PERIODS[2:7]), ret=False)]
            elif r < 0.8 and not c['ret']:
                c['script'] = [dict(op='add_timer', cid=100 + c['cid'], delta=rng.choice(PERIODS[2:7]), ret=False)]
    nops = rng.randint(1, 6 if small else 12)
    minper = 10 ** 9
    subs = []
    if len(cbs) >= 2 and rng.random() < 0.25:
        # two timers with one period registered at one instant: they fall due in the same pass of the job thread, every time
        d = rng.choice(PERIODS[4:])
        pair = list(cbs.values())[:2]
        if rng.random() < 0.6:
            # ... the first of them managing the second: it takes it off and registers new one-shots in the same call
            pair[0]['script'] = [dict(op='remove_timer', cid=pair[1]['cid'])] + \
                                [dict(op='add_timer', cid=130 + i, delta=rng.choice(PERIODS[2:7]), ret=False) for i in range(rng.choice([1, 2, 2, 3]))]
        for c in pair:
            if c['ret']:
                minper = min(minper, d)
            ops.append(dict(t=t, s=0, op='add_timer', cid=c['cid'], delta=d, ret=c['retval'], script=c.get('script')))
    for k in range(nops):
        r = rng.random()
        t += rng.choice([0, 0, 1, 700, 3000, 40000, 260000, 1200000])
        if r < 0.55:
            c = cbs[rng.choice(list(cbs))]
            d = rng.choice(PERIODS)
            if c['ret']:
                minper = min(minper, d)
            ops.append(dict(t=t, s=0, op='add_timer', cid=c['cid'], delta=d, ret=c['retval'], script=c.get('script')))
        elif r < 0.75:
            ops.append(dict(t=t, s=0, op='remove_timer', cid=rng.choice(list(cbs))))
        elif r < 0.9:
            cid = 200 + rng.randint(0, 2)
            subs.append(cid)
            ops.append(dict(t=t, s=0, op='subscribe', cid=cid, filt=rng.choice([None, None, 7])))
        else:
            ops.append(dict(t=t, s=0, op='unsubscribe', cid=200 + rng.randint(0, 2)))
    # remove_timer of a callback never added would need the cb object: make sure every cid exists
    first = {}
    for o in ops:
        if o['op'] == 'add_timer':
            first.setdefault(o['cid'], o['t'])
    ops = [o for o in ops if not (o['op'] == 'remove_timer' and (o['cid'] not in first or first[o['cid']] > o['t']))]
    ops = [o for o in ops if not (o['op'] == 'unsubscribe' and o['cid'] not in subs)]
    # scripts may reference callbacks that are never registered at top level: drop such scripts
    for o in ops:
        if o.get('script'):
            o['script'] = [a for a in o['script'] if a['op'] != 'remove_timer' or a['cid'] in first]
    # probe messages so that subscriptions are observable: broadcast frames injected from outside
    inject = []
    tt = 500
    end = t + (min(6 * 10 ** 6, max(20 * minper, 400000)) if minper < 10 ** 9 else 3500000)
    while tt < end:
        inject.append(dict(t=tt, to=0, id=0x18FEF100 + 0x33, data=[tt % 256, 1, 2], via='listener'))
        tt += rng.choice([150000, 333000, 1100000])
    sd = dict(dll='j1939-21', max_cmdt=1)
    if rng.random() < 0.4:
        # the application registers through a controller application (ControllerApplication.add_timer / remove_timer are the
        # ECU's): a CA that was never started, or one that was started and stopped again, registers and removes all the same
        sd['cas'] = [dict(name=5, addr=0x81, bypass=rng.random() < 0.5, subs=[], req=[])]
        for o in ops:
            if o['op'] in ('add_timer', 'remove_timer') and rng.random() < 0.7:
                o['ca'] = 0
        if rng.random() < 0.4:
            ops.append(dict(t=300, s=0, op='ca_start', ca=0, delay=0))
            ops.append(dict(t=rng.choice([600, 2000, t // 2 + 700]), s=0, op='ca_stop', ca=0))
            ops.sort(key=lambda e: e['t'])
    sc = dict(stacks=[sd], jit=[jit], script=ops, inject=inject, horizon=end)
    if rng.random() < 0.25:
        # pre-emptive schedule: whenever an application call wakes the job thread, the job thread runs BEFORE that call
        # goes on (the model's handlers are atomic, so these runs are judged by the oracle only)
        sc['eager_wake'] = True
        sc['oracle_only'] = True
    return sc


def gen_busy(rng):
    """a periodic timer P and a callback B that blocks the job thread for more than one period of P, once: afterwards P
    must be back on its grid t_reg + k*delta ('keeps being called every delta without accumulating drift')"""
    jit = rng.choice([1, 1, 400])
    dP = rng.choice([1000, 2000, 5000, 20000, 100000])
    dB = rng.choice([3000, 7000, 50000, 130000])
    d = int(dP * rng.choice([1.3, 2.5, 3.2, 4.7])) + rng.choice([0, 7, 333])
    tP, tB = 1000 + rng.choice([0, 1, 400]), 1000 + rng.choice([0, 0, 300])
    ops = [dict(t=tP, s=0, op='add_timer', cid=1, delta=dP, ret=True),
           dict(t=tB, s=0, op='add_timer', cid=2, delta=dB, ret=rng.random() < 0.5, script=[dict(op='busy', d=d, at=rng.choice([1, 2]), key=2)])]
    if rng.random() < 0.4:
        ops.append(dict(t=1000, s=0, op='add_timer', cid=3, delta=rng.choice([1000, 4000, 9000]), ret=True))
    ops.sort(key=lambda o: o['t'])
    return dict(stacks=[dict(dll='j1939-21', max_cmdt=1)], jit=[jit], script=ops, inject=[], horizon=tB + 2 * dB + d + 40 * dP,
                meta=dict(kind='busy', period=dP, busy=d))


def oracle_busy(sc, res):
    J = max(sc['jit'])
    v = []
    busy = [(e[0], e[0] + e[3]) for e in res.trace if e[2] == 'busy']
    regs = {e[4]: (e[0], e[5]) for e in res.trace if e[2] == 'api' and e[3] == 'add_timer'}
    if not busy:
        return v
    t_free = max(b for a, b in busy)
    for cid, (t0, delta) in regs.items():
        if cid == 2:
            continue
        # the first due instant after the blocking ended is served on time: the sleep is computed from the clock, not from
        # the instant the pass began
        allf = [e[0] for e in res.trace if e[2] == 'timer' and e[3] == cid]
        k = (t_free + J + 1 - t0 + delta - 1) // delta
        due = t0 + k * delta
        if due + J + 2 < sc['horizon'] and not any(due <= f <= due + J for f in allf):
            nxt = [f for f in allf if f > due + J]
            v.append(dict(kind='timer-late-after-a-slow-callback', cid=cid, due=due, period=delta, next_invocation=(nxt[0] if nxt else None), blocked=[busy[0][0], busy[0][1]]))
        fires = [e[0] for e in res.trace if e[2] == 'timer' and e[3] == cid and e[0] > t_free + 2 * delta + J]
        for t in fires:
            off = (t - t0) % delta
            if off > J + 1:
                v.append(dict(kind='periodic-timer-off-its-grid-after-an-overrun', cid=cid, registered=t0, period=delta, invoked=t, off_grid_by=off,
                              blocked=[busy[0][0], busy[0][1]]))
                break
        # ... and it keeps firing: one invocation per period once the ECU is idle again
        if fires and len(fires) < (sc['horizon'] - (t_free + 2 * delta + J)) // delta - 2:
            v.append(dict(kind='timer-late-or-suppressed', cid=cid, invocations=len(fires)))
    for j, js in enumerate(res.job):
        if js != 'alive':
            v.append(dict(kind='job-thread-' + js, stack=j))
    return v


def oracle(sc, res):
    """reads registration / removal instants from the trace and checks the property on the firing instants"""
    if sc.get('meta', {}).get('kind') == 'busy':
        return oracle_busy(sc, res)
    J = max(sc['jit'])
    H = sc['horizon']
    regs = []      # dict(cid, t, delta, periodic, removed_at)
    fires = []     # (t, cid)
    subs = []      # dict(cid, t, removed_at, filt)
    cbs = []
    order = 0
    for e in res.trace:
        order += 1
        if e[2] == 'api' and e[3] == 'add_timer':
            regs.append(dict(cid=e[4], t=e[0], delta=e[5], periodic=bool(e[6]), removed=None, order=order, fired=0))
        elif e[2] == 'api' and e[3] == 'remove_timer':
            for r in regs:
                if r['cid'] == e[4] and r['removed'] is None:
                    r['removed'] = (e[0], order)
        elif e[2] == 'timer':
            fires.append((e[0], e[3], order))
        elif e[2] == 'api' and e[3] == 'subscribe':
            subs.append(dict(cid=e[4], t=e[0], order=order, removed=None, filt=e[5]))
        elif e[2] == 'api' and e[3] == 'unsubscribe':
            for s in subs:
                if s['cid'] == e[4] and s['removed'] is None:
                    s['removed'] = (e[0], order)
        elif e[2] == 'cb':
            cbs.append((e[0], e[3], order))
    v = []
    # expected dues per registration
    dues = []
    for r in regs:
        k = 1
        while True:
            due = r['t'] + k * r['delta']
            if due + J + 2 > H:
                break
            if r['removed'] is not None and due >= r['removed'][0] - J - 1:
                break
            dues.append(dict(cid=r['cid'], due=due, reg=r))
            if not r['periodic']:
                break
            k += 1
            if k > 20000:
                break
    # every due is matched by one invocation in [due, due+J]; greedy in time order
    unmatched = sorted(fires)
    used = [False] * len(unmatched)
    for d in sorted(dues, key=lambda x: x['due']):
        hit = None
        for i, (t, cid, o) in enumerate(unmatched):
            if not used[i] and cid == d['cid'] and d['due'] <= t <= d['due'] + J:
                hit = i
                break
        if hit is None:
            late = [t for (t, cid, o) in unmatched if cid == d['cid'] and t > d['due'] + J]
            v.append(dict(kind='timer-late-or-suppressed', cid=d['cid'], due=d['due'], delta=d['reg']['delta'],
                          next_invocation=(late[0] if late else None)))
            break
        used[hit] = True
    # every invocation is justified: a registration of cid alive at that moment with a due <= t, never after removal
    for (t, cid, o) in fires:
        ok = False
        for r in regs:
            if r['cid'] != cid or r['order'] > o:
                continue
            if r['removed'] is not None and r['removed'][1] < o:
                continue
            if t >= r['t'] + r['delta']:
                ok = True
        if not ok:
            alive = [r for r in regs if r['cid'] == cid and r['order'] < o]
            kind = 'called-after-remove' if alive and all(r['removed'] is not None and r['removed'][1] < o for r in alive) else 'timer-early'
            v.append(dict(kind=kind, cid=cid, t=t))
            break
    # one-shot / count: invocations of a cid never exceed the dues possible up to then (+ optional ones near removal)
    for cid in set(c for (_, c, _) in fires):
        n_f = sum(1 for (t, c, o) in fires if c == cid)
        n_max = 0
        for r in regs:
            if r['cid'] != cid:
                continue
            end = r['removed'][0] if r['removed'] else H
            n_max += (max(0, (end - r['t']) // r['delta']) if r['periodic'] else 1)
        if n_f > n_max:
            v.append(dict(kind='timer-too-often', cid=cid, invocations=n_f, at_most=n_max))
    # subscriptions: every injected broadcast reaches every subscription alive at that time, none after unsubscribe
    for inj in sc.get('inject', []):
        t = inj['t']
        for s in subs:
            alive = s['t'] < t and (s['removed'] is None or s['removed'][0] > t)
            got = sum(1 for (tc, cid, o) in cbs if tc == t and cid == s['cid'])
            n_alive = sum(1 for s2 in subs if s2['cid'] == s['cid'] and s2['t'] < t and (s2['removed'] is None or s2['removed'][0] > t))
            if got != n_alive and (s['removed'] is None or abs(s['removed'][0] - t) > 0) and s['t'] != t:
                v.append(dict(kind='called-after-unsubscribe' if got > n_alive else 'subscriber-missed', cid=s['cid'], t=t, got=got, expected=n_alive))
                break
    for j, js in enumerate(res.job):
        if js != 'alive':
            v.append(dict(kind='job-thread-' + js, stack=j))
    return v


FILES = ['theories/Base.v', 'theories/gen/Codec.v', 'theories/gen/Tp21Gen.v', 'theories/gen/CaGen.v', 'theories/CodecGlue.v',
         'theories/Model21.v', 'theories/Replay21.v', 'proofs/CodecProofs.v', 'proofs/Flat.v', 'proofs/TimerProofs.v',
         'proofs/RobustProofs.v', 'proofs/NoOversleep.v', 'proofs/NoOversleepTimers.v']


def run(out, tier, rng, work):
    import sprop
    out.rule = ('one real ECU under virtual time; histories of up to 12 add_timer/remove_timer/subscribe/unsubscribe operations, '
                'periods on {1 ms..3 s}, one-shot and periodic, duplicate registrations, operations from inside timer callbacks, idle gaps, '
                'jitter 1 or 400 us; every fifth history: a callback that blocks the job thread for 1.3..4.7 periods of another periodic timer (overrun), which must then be back on its grid; probe broadcasts make subscriptions observable; oracle: every due instant t_reg + k*delta is served '
                'within [due, due+J], nothing fires early / after removal / too often; every handler log replayed on the Coq model; '
                'non-trivial = at least one timer invocation; distinct by scenario hash'
                " Callbacks return True/1 (periodic) or False/None/0/2/'again'/[1]/0.5 (one-shot); registration through a controller application (never started / started and stopped) in 40 %; a quarter of the histories under the pre-emptive wake schedule (oracle only).")
    out.assumptions = ['A1-A3, A6 of DESIGN.md section 3; scheduling latency is the scenario jitter J',
                       'remove_timer racing with a pass that already holds the event on another thread is below handler granularity: not exhibited']
    sprop.run_stateful(out, 'C12', tier, rng, work, FILES, lambda r, k: (gen_busy(r) if k % 5 == 4 else gen(r, small=(k % 3 == 0))), oracle, 150, 2500,
                       lambda sc, res: any(e[2] == 'timer' for e in res.trace),
                       sample=lambda sc, res: dict(script=sc['script'][:4], jit=sc['jit'], timer_invocations=sum(1 for e in res.trace if e[2] == 'timer')))


def explore(out, rng, n):
    viol = []
    for k in range(n):
        sc = gen(rng, small=(k % 3 == 0))
        res = scen.run(sc)
        nfires = sum(1 for e in res.trace if e[2] == 'timer')
        out.add_case(scen.sc_hash(sc), nfires > 0, sample=dict(script=sc['script'][:4], jit=sc['jit'], timer_invocations=nfires) if k < 3 else None)
        for x in oracle(sc, res):
            viol.append((x, sc))
    return viol

"""C18 — DM14 serves no data without the right key, surfaces errors, and recovers."""
import json
import common as C
import dm14h, p_c17

FILES = p_c17.FILES
runner = dm14h.runner
ITEMS = ['item_dm15', 'item_dm15_fields', 'item_dm14_payload']
ERRS = [0x1, 0x2, 0x10, 0x100, 0x103, 0x1000, 0x1003, 0x1007, 0x24, 0x10000, 0xFFFFFE, 0x777]


def gen(rng, k):
    ops = []
    seedkey = rng.random() < 0.6
    wrong_client = seedkey and rng.random() < 0.25      # the client computes wrong keys for the whole history
    same = dict(address=rng.choice([0x92000003, 0x10, rng.getrandbits(32)]), direct=1)
    # directed histories first (k < 16): each kind of failure, with and without seed/key, followed by a well-formed read and a
    # well-formed write on the same object ("the next well-formed read or write succeeds")
    directed = None
    if k < 16:
        seedkey = bool(k & 1)
        wrong_client = False
        directed = [['refuse', 'respond_false', 'absent', 'respond_false'][(k >> 1) & 3], 'none', 'none'] if k < 8 else \
                   ['none', ['refuse', 'respond_false', 'absent', 'refuse'][(k >> 1) & 3], 'none', 'none']
    for i in range(len(directed) if directed else rng.randint(1, 6)):
        fail = directed[i] if directed else rng.choice(['none', 'none', 'refuse', 'respond_false', 'absent'])
        if (rng.random() < 0.5) if not directed else (i != len(directed) - 1):
            n = rng.choice([1, 3, 7])
            op = dict(kind='read', count=n, size=1, signed=False, raw=True, server_data=[rng.randrange(256) for _ in range(n)], timeout=1, gap=3.5, **same)
        else:
            op = dict(kind='write', values=[rng.randrange(256) for _ in range(rng.choice([1, 4]))], size=1, timeout=1, gap=3.5, **same)
        if fail == 'refuse':
            op['refuse_proceed'] = True
        elif fail == 'respond_false':
            op['respond_false'] = rng.choice(ERRS)
            op['edcp'] = rng.choice([6, 7])
        elif fail == 'absent':
            op['absent'] = True
            op['timeout'] = rng.choice([0, 0.2, 0.4, 1, 2])       # (0: the caller does not want to wait at all)
        ops.append(op)
    if seedkey and not wrong_client and len(ops) >= 2 and rng.random() < 0.35:
        ops[rng.randrange(1, len(ops))]['rekey'] = True
    return dict(kind='dm14', ops=ops, seedkey=seedkey, client_wrong_key=wrong_client,
                seeds=[rng.choice([0x0001, 0xFFFE, 0xA55A, rng.randint(1, 0xFFFE)]) for _ in range(12)],
                lat=[rng.choice([1, 500])], horizon=1000 + len(ops) * 9_000_000, max_cmdt=8)


def oracle(sc, res):
    v = []
    if len(res.results) != len(sc['ops']):
        v.append(dict(kind='client-did-not-finish', done=len(res.results), ops=len(sc['ops'])))
    wrong = sc.get('client_wrong_key')
    for i, (op, r) in enumerate(zip(sc['ops'], res.results)):
        served = [s for s in res.served if s.get('op') == i]
        pro = [s for s in served if s['ev'] == 'proceed']
        noti = [s for s in served if s['ev'] == 'notify']
        txt = r[2] if r[0] == 'exc' else ''
        if op.get('absent'):
            if r[0] != 'exc' or 'No response' not in txt:
                v.append(dict(kind='absent-server-not-reported', op=i, result=r[:3]))
            # "... as an exception within the caller's timeout" (plus scheduling latency)
            if i < len(res.times) and res.times[i][1] is not None:
                took = res.times[i][1] - res.times[i][0]
                if took > int(op.get('timeout', 1) * 1e6) + 150_000:
                    v.append(dict(kind='absent-server-reported-after-the-callers-timeout', op=i, opkind=op['kind'], timeout_s=op.get('timeout', 1), took_us=took))
            continue
        if wrong:
            # key gate: nothing reaches the application, no data is served, the client is told "invalid key" (0x1003)
            if pro or noti:
                v.append(dict(kind='request-served-without-right-key', op=i, callbacks=len(pro) + len(noti)))
            if r[0] != 'exc' or '0x1003' not in txt:
                v.append(dict(kind='wrong-key-not-reported', op=i, result=r[:3]))
            continue
        if op.get('refuse_proceed'):
            if noti:
                v.append(dict(kind='refused-request-notified', op=i))
            if r[0] != 'exc' or '0x100' not in txt:
                v.append(dict(kind='refusal-not-reported', op=i, result=r[:3]))
            continue
        if op.get('respond_false') is not None:
            if r[0] != 'exc' or hex(op['respond_false']) not in txt:
                v.append(dict(kind='error-response-not-reported', op=i, error=hex(op['respond_false']), result=r[:3]))
            continue
        # well-formed operation: must succeed although earlier ones failed
        if r[0] != 'ok':
            v.append(dict(kind='no-recovery-after-failure', op=i, opkind=op['kind'], result=r[:3],
                          earlier=[('absent' if o.get('absent') else 'refuse' if o.get('refuse_proceed') else 'respond_false' if o.get('respond_false') is not None else 'ok') for o in sc['ops'][:i]]))
        elif op['kind'] == 'read' and r[1] != list(op['server_data']):
            v.append(dict(kind='read-returns-wrong-data', op=i, got=r[1], expected=op['server_data']))
        right = dm14h.key_fn2 if any(o.get('rekey') for o in sc['ops'][:i + 1]) else dm14h.key_fn      # the algorithm in force at that operation
        if sc.get('seedkey') and pro and pro[0]['key'] != right(pro[0]['seed']):
            v.append(dict(kind='request-served-without-right-key', op=i, key=pro[0]['key'], seed=pro[0]['seed']))
    for j, js in enumerate(res.job):
        if js != 'alive':
            v.append(dict(kind='job-thread-' + js, stack=j))
    return v

def run(out, tier, rng, work):
    import items, scen, sprop
    out.rule = ('histories of up to 6 operations mixing failures (wrong key, refusal at the proceed callback, error response with defined and undefined error codes and EDCP 6/7, absent server) and successes on the same objects; oracle: nothing reaches the application and no data is served without the right key; every failure is raised to the caller naming the error code (timeout: "No response"); every well-formed operation after failures succeeds; non-trivial = the client finished at least one operation'
                ' The first 16 histories are directed: each failure kind, with and without seed/key, followed by a well-formed read and write.')
    out.assumptions = ['A1-A6 of DESIGN.md section 3', 'the serving side (DM14Server + serving half of MemoryAccess + the CA subscriber list) is modelled as a state machine (theories/Dm14Srv.v) and tied to the code by operation-sequence correspondence; the client (Dm14Query) and the transport under ca.send_pgn are not: transactions end to end are run on the real code (testing)']
    out.extra['partial'] = ['T18.3 (recovery after a failed operation, on both sides) not proved: checked on the real code by the oracle; client-side exceptions naming the error code: item level + oracle; server side key gate proved for every state']
    C.std_proof_stage(out, 'C18', FILES)
    total, mism, errors = items.run_items(ITEMS, rng, 300 if tier == 'quick' else 3000, work, C)
    out.traces_validated = total
    for e in errors:
        out.broken.append('item correspondence %s did not evaluate: %s' % (e[0], e[1][-200:]))
    for m in mism[:20]:
        out.broken.append('correspondence %s: model and implementation differ on input %s (impl %s)' % (m[0], m[1][:14], m[2][:14]))
    import dm14srv, dm14cli
    dm14srv.stage(out, tier, rng, work, C)
    dm14cli.stage(out, tier, rng, work, C)
    worst = {}
    runs = [(nm, sc) for nm, sc in sprop.load_corpus('C18')] + [('gen-%d' % k, gen(rng, k)) for k in range(120 if tier == 'quick' else 2500)]
    for nm, sc in runs:
        res = runner(sc)
        out.add_case(scen.sc_hash(sc), len(res.results) > 0, sample=dict(ops=[{a: b for a, b in o.items() if a not in ('server_data', 'values')} for o in sc['ops']][:3], results=[r[:2] for r in res.results][:3]) if len(out.samples) < 3 else None)
        for x in oracle(sc, res):
            if x['kind'] not in worst or len(json.dumps(sc)) < len(json.dumps(worst[x['kind']][1])):
                worst[x['kind']] = (x, sc)
    for kind, (x, sc) in worst.items():
        out.violation('%s: %s' % (kind, json.dumps(x, default=str)[:300]), dict(kind=kind), dict(broke='oracle', scenario=sc, violation=x))

"""refpeer.py — an independent reading of the SAE J1939 layouts in plain arithmetic (/, %, *), written
from the standard's tables as quoted in the property texts, NOT from the code under test.  Used by the
oracles (to find failing inputs) and as the reference peer of the transport scenarios; never by the model."""


def ref_can_id(prio, pgn, sa):
    return (prio % 8) * 2 ** 26 + (pgn % 2 ** 18) * 2 ** 8 + (sa % 256)


def ref_parse_id(i):
    return (i // 2 ** 26) % 8, (i // 256) % 2 ** 18, i % 256


def ref_pgn_fields(pgn):
    return (pgn // 65536) % 2, (pgn // 256) % 256, pgn % 256


NAME_LAYOUT = [  # (field, position, width)  SAE J1939-81
    ('identity_number', 0, 21), ('manufacturer_code', 21, 11), ('ecu_instance', 32, 3),
    ('function_instance', 35, 5), ('function', 40, 8), ('reserved_bit', 48, 1), ('vehicle_system', 49, 7),
    ('vehicle_system_instance', 56, 4), ('industry_group', 60, 3), ('arbitrary_address_capable', 63, 1)]


def ref_name_fields(v):
    return {f: (v // 2 ** p) % 2 ** w for f, p, w in NAME_LAYOUT}


def ref_name_value(fields):
    return sum(fields[f] * 2 ** p for f, p, w in NAME_LAYOUT)


def ref_le_bytes(v, n):
    return [(v // 256 ** k) % 256 for k in range(n)]


def ref_le_value(b):
    return sum(x * 256 ** k for k, x in enumerate(b))


# ---------------------------------------------------------------- J1939-73
def ref_dtc_bytes(spn, fmi, oc, cm=0):
    """4 bytes of a DTC: SPN low 16 bits LE, then byte 3 = SPN bits 18..16 in bits 7..5 | FMI, byte 4 = CM<<7 | OC"""
    return [spn % 256, (spn // 256) % 256, ((spn // 65536) % 8) * 32 + fmi % 32, (cm % 2) * 128 + oc % 128]


def ref_dtc_parse(b):
    return dict(spn=b[0] + 256 * b[1] + 65536 * (b[2] // 32), fmi=b[2] % 32, oc=b[3] % 128, cm=b[3] // 128)


LAMP_BITS = {0: (0, 3), 1: (1, 3), 2: (1, 0), 3: (1, 1), 4: (3, 3)}   # status -> (lamp, flash) bit pairs
LAMP_POS = {'pl': 0, 'awl': 2, 'rsl': 4, 'mil': 6}


def ref_lamp_bytes(st):
    b0 = sum(LAMP_BITS[st[k]][0] << LAMP_POS[k] for k in LAMP_POS)
    b1 = sum(LAMP_BITS[st[k]][1] << LAMP_POS[k] for k in LAMP_POS)
    return [b0, b1]


def ref_dm22_payload(ctrl, spn, fmi):
    return [ctrl, 0xFF, 0xFF, 0xFF, 0xFF, spn % 256, (spn // 256) % 256, ((spn // 65536) % 8) * 32 + fmi % 32]


# ---------------------------------------------------------------- J1939-21 transport frames
def ref_tp_cm_id(prio, da, sa):
    return ref_can_id(prio, 0xEC00 + da, sa)


def ref_tp_dt_id(da, sa):
    return ref_can_id(7, 0xEB00 + da, sa)


def ref_pgn3(pgn):
    return [pgn % 256, (pgn // 256) % 256, (pgn // 65536) % 256]


def ref_rts(size, n, limit, pgn):
    return [16, size % 256, size // 256, n, limit] + ref_pgn3(pgn)


def ref_cts(n, nxt, pgn):
    return [17, n, nxt, 255, 255] + ref_pgn3(pgn)


def ref_eom_ack(size, n, pgn):
    return [19, size % 256, size // 256, n, 255] + ref_pgn3(pgn)


def ref_bam(size, n, pgn):
    return [32, size % 256, size // 256, n, 255] + ref_pgn3(pgn)


def ref_abort(reason, pgn):
    return [255, reason, 255, 255, 255] + ref_pgn3(pgn)


def ref_packets(payload):
    n = (len(payload) + 6) // 7
    out = []
    for k in range(n):
        seg = list(payload[7 * k: 7 * k + 7])
        out.append([k + 1] + seg + [255] * (7 - len(seg)))
    return out


def ref_decode_cm(data):
    c = data[0]
    pgn = data[5] + 256 * data[6] + 65536 * data[7]
    if c == 16:
        return dict(kind='RTS', size=data[1] + 256 * data[2], n=data[3], limit=data[4], pgn=pgn)
    if c == 17:
        return dict(kind='CTS', n=data[1], next=data[2], pgn=pgn)
    if c == 19:
        return dict(kind='EOMA', size=data[1] + 256 * data[2], n=data[3], pgn=pgn)
    if c == 32:
        return dict(kind='BAM', size=data[1] + 256 * data[2], n=data[3], pgn=pgn)
    if c == 255:
        return dict(kind='ABORT', reason=data[1], pgn=pgn)
    return dict(kind='?', control=c)

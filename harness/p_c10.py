"""C10 — transport capacity is conserved over any history of good and failed transfers."""
import json
import common as C
import sprop, gen_tp, oracle_tp, scen, refpeer as R, peer as P
from scen import payload

FILES = ['theories/Base.v', 'theories/gen/Codec.v', 'theories/gen/Tp21Gen.v', 'theories/gen/CaGen.v', 'theories/gen/Tp22Gen.v', 'theories/CodecGlue.v',
         'theories/Model21.v', 'theories/Model22.v', 'theories/Replay21.v', 'theories/Replay22.v', 'proofs/CodecProofs.v', 'proofs/Flat.v',
         'proofs/Tp21Seg.v', 'proofs/Tp21Resp.v', 'proofs/Tp21Orig.v', 'proofs/TimeoutProofs.v', 'proofs/MpgProofs.v', 'proofs/PoolProofs.v', 'proofs/ConserveProofs.v',
         'theories/SkelDefs.v', 'theories/FlowDefs.v', 'theories/gen/SkelGen.v', 'proofs/FlowProofs.v', 'proofs/FlowSend22.v', 'proofs/Net21.v', 'proofs/Net21Proofs.v', 'proofs/Net21Seq.v', 'proofs/Net22.v', 'proofs/Net22Proofs.v', 'proofs/Net22Seq.v', 'proofs/Net21Bam.v', 'proofs/Net21BamSeq.v', 'theories/gen/DiagGen.v', 'theories/Dm1Model.v', 'proofs/DiagProofs.v']


def gen(rng, k, dll=None):
    dll = dll or rng.choice(['j1939-21', 'j1939-22'])
    fd = dll != 'j1939-21'
    # (address 0 is an address like any other: it takes its turn on every side)
    a0, a1, a2 = rng.choice([(0x10, 0x20, 0x30), (0x10, 0x20, 0x30), (0x10, 0x00, 0x30), (0x00, 0x20, 0x30), (0xF9, 0x20, 0x00)])
    stacks = [dict(dll=dll, max_cmdt=rng.choice([1, 2, 8, 255]), subs=[dict(cid=1, filt=a0)], cas=[]),
              dict(dll=dll, max_cmdt=rng.choice([1, 3, 255]), subs=[dict(cid=2, filt=a1)], cas=[]),
              dict(dll=dll, max_cmdt=2, subs=[dict(cid=3, filt=a2)], cas=[])]
    addr = [a0, a1, a2]
    script, inject, faults = [], [], []
    t = 1000
    nhist = rng.randint(1, 14 if k % 4 else 40)
    for i in range(nhist):
        s = rng.choice([0, 0, 0, 1])
        sa = addr[s]
        kind = rng.choice(['p2p', 'p2p', 'p2p', 'bam'])
        outcome = rng.choice(['clean', 'clean', 'lost', 'abort', 'silent', 'nobody', 'rerequest', 'hold'])
        sz = rng.choice([61, 100, 200]) if fd else rng.choice([9, 20, 40])
        if kind == 'bam':
            # a broadcast is a PDU2 group or a PDU1 group sent to the global address
            pf, ps = (0xFE, rng.randrange(256)) if rng.random() < 0.5 else (0xB0 + i % 8, 255)
        else:
            d = rng.choice([x for x in (0, 1, 2) if x != s])
            pf, ps = 0xD0 + i % 8, (addr[d] if outcome != 'nobody' else 0x77)
        script.append(dict(t=t, s=s, op='send', a=[0, pf, ps, 6, sa, dict(seed=rng.getrandbits(30), len=sz)], hist=True, outcome=outcome))
        if outcome == 'lost':
            faults.append(dict(drop_after=t, nth=rng.randint(1, 4)))
        elif outcome == 'silent' and kind == 'p2p':
            faults.append(dict(silent_window=[t + 1, t + 2_000_000], stack=[x for x in (0, 1, 2) if addr[x] == ps][0]))
        elif outcome == 'abort' and kind == 'p2p':
            # the peer aborts while the originator waits for its CTS
            if fd:
                for sess in range(8):
                    inject.append(dict(t=t + 100, to=s, id=R.ref_can_id(7, 0x4D00 + sa, ps), data=P.fd_cm(15, sess, 0xFFFFFF, 0xFFFFFF, 0xFF, 1, pf << 8), fd=True))
            else:
                inject.append(dict(t=t + 100, to=s, id=R.ref_tp_cm_id(7, sa, ps), data=R.ref_abort(1, pf << 8)))
        elif outcome == 'rerequest' and kind == 'p2p':
            # the (silenced) peer grants everything, then re-requests packets at / around the end of the message after
            # all of them have been sent, and falls silent for good
            unit = 60 if fd else 7
            n = (sz + unit - 1) // unit
            faults.append(dict(silent_window=[t + 1, t + 3_000_000], stack=[x for x in (0, 1, 2) if addr[x] == ps][0]))
            grants = [(255, 1, t + 2000)] + [(rng.choice([1, 1, 2, 255]), rng.choice([n, n, n + 1, n - 1 if n > 1 else 1]), t + 400_000 + 200_000 * j) for j in range(rng.randint(1, 2))]
            for cnt, nxt, tg in grants:
                if fd:
                    for sess in range(8):
                        inject.append(dict(t=tg, to=s, id=R.ref_can_id(7, 0x4D00 + sa, ps), data=P.fd_cm(1, sess, 0xFFFFFF, nxt, cnt, 0, pf << 8), fd=True))
                else:
                    inject.append(dict(t=tg, to=s, id=R.ref_tp_cm_id(7, sa, ps), data=[17, cnt, nxt, 255, 255] + R.ref_pgn3(pf << 8)))
        elif outcome == 'hold' and kind == 'p2p':
            # the (silenced) peer answers the RTS with 1..3 hold CTS (zero packets), less than Th apart, and falls silent for good
            faults.append(dict(silent_window=[t + 1, t + 3_000_000], stack=[x for x in (0, 1, 2) if addr[x] == ps][0]))
            for j in range(rng.randint(1, 3)):
                tg = t + 2000 + 300_000 * j
                if fd:
                    for sess in range(8):
                        inject.append(dict(t=tg, to=s, id=R.ref_can_id(7, 0x4D00 + sa, ps), data=P.fd_cm(1, sess, 0xFFFFFF, 1, 0, 0, pf << 8), fd=True))
                else:
                    inject.append(dict(t=tg, to=s, id=R.ref_tp_cm_id(7, sa, ps), data=[17, 0, 1, 255, 255] + R.ref_pgn3(pf << 8)))
        t += rng.choice([200_000, 1_400_000, 3_300_000, 4_000_000])
    t_final = t + 4_500_000
    # afterwards: the full advertised concurrency from stack 0
    final = []
    if fd:
        zero = 0 if 0 in (a1, a2) and rng.random() < 0.7 else None       # (all eight to the node at address 0)
        for i in range(8):
            final.append([0, 0xC0 + i, zero if zero is not None else rng.choice([a1, a2]), 6, a0, dict(seed=rng.getrandbits(30), len=rng.choice([61, 130]))])
        for i in range(4):
            final.append([0, 0xF0 + i, 0x11, 6, a0, dict(seed=rng.getrandbits(30), len=rng.choice([61, 130]))])
    else:
        final.append([0, 0xC1, a1, 6, a0, dict(seed=rng.getrandbits(30), len=30)])
        final.append([0, 0xC2, a2, 6, a0, dict(seed=rng.getrandbits(30), len=30)])
        final.append([0, 0xF1, 0x11, 6, a0, dict(seed=rng.getrandbits(30), len=30)])
    for a in final:
        script.append(dict(t=t_final, s=0, op='send', a=a, final=True))
    script.sort(key=lambda e: e['t'])
    return dict(stacks=stacks, lat=[rng.choice([1, 500])], jit=[1], script=script, inject=inject, horizon=t_final + 8_000_000,
                dll=dll, t_final=t_final, c10_faults=faults)


def runner(sc):
    """scen.run with time-windowed faults"""
    import vts
    fl = sc.get('c10_faults', [])
    t_final = sc.get('t_final', 1 << 62)      # a fault of the history never reaches into the final transfers
    sc2 = dict(sc)
    orig_transmit = vts.Sim.transmit

    def transmit(self, src, frame):
        now = self.now
        for f in fl:
            if 'silent_window' in f and f['stack'] == src and f['silent_window'][0] <= now <= f['silent_window'][1]:
                self.frame_counter += 1
                self.trace.append((now, src, 'silenced', self.frame_counter))
                return
            if 'drop_after' in f and f['drop_after'] <= now < min(f['drop_after'] + 4_000_000, t_final) and not f.get('done'):
                f['cnt'] = f.get('cnt', 0) + 1
                if f['cnt'] == f['nth']:
                    f['done'] = True
                    self.frame_counter += 1
                    self.trace.append((now, src, 'dropped', self.frame_counter))
                    return
        return orig_transmit(self, src, frame)
    for f in fl:
        f.pop('done', None)
        f.pop('cnt', None)
    vts.Sim.transmit = transmit
    try:
        return scen.run(sc2)
    finally:
        vts.Sim.transmit = orig_transmit


def oracle(sc, res):
    v = []
    if 't_final' not in sc:          # corpus scenarios: every send of the scenario must be accepted, nothing may be left
        for ev, r in res.returns:
            if ev['op'] == 'send' and r is not True:
                v.append(dict(kind='capacity-not-restored', refused=ev['a'][:5]))
        for j, js in enumerate(res.job):
            if js != 'alive':
                v.append(dict(kind='job-thread-' + js, stack=j))
        if not all(res.empty):
            v.append(dict(kind='session-left-at-end', empty=res.empty))
        return v
    tf = sc['t_final']
    fin = [(ev, r) for ev, r in res.returns if ev.get('final')]
    for ev, r in fin:
        if r is not True:
            v.append(dict(kind='capacity-not-restored', refused=ev['a'][:5], dll=sc['dll']))
    # all of them delivered intact
    exp = {}
    reg = oracle_tp.registry(sc)
    from collections import Counter
    want = Counter()
    for ev, r in fin:
        if r is not True:
            continue
        dp, pf, ps, prio, sa, pl = ev['a'][:6]
        d = oracle_tp.dest_of(pf, ps)
        for j, cid in oracle_tp.receivers(sc, reg, 0, d):
            want[(j, cid, oracle_tp.expected_pgn(dp, pf, ps), sa, tuple(payload(pl)))] += 1
    got = Counter()
    for e in res.trace:
        if e[2] == 'cb' and e[0] >= tf and len(e[7]) > 12:
            got[(e[1], e[3], e[5], e[6], tuple(e[7]))] += 1
    for kx in want:
        if got.get(kx, 0) != want[kx]:
            v.append(dict(kind='final-transfer-not-delivered', stack=kx[0], pgn=kx[2], length=len(kx[4]), dll=sc['dll']))
            break
    # J1939-21: send_pgn returns False only while an earlier transfer on that pair is in progress
    for j, js in enumerate(res.job):
        if js != 'alive':
            v.append(dict(kind='job-thread-' + js, stack=j))
    if not all(res.empty):
        v.append(dict(kind='session-left-at-end', empty=res.empty))
    # refused calls of the history emitted nothing: not checked here (C02)
    return v


def nontrivial(sc, res):
    if 't_final' not in sc:
        return True
    return any(e[2] in ('dropped', 'silenced') for e in res.trace) or len([e for e in sc['script'] if e.get('hist')]) >= 3


def run(out, tier, rng, work):
    out.rule = ('three real stacks (either layer); histories of 1..40 transfers mixing sizes, directions, peers and outcomes (clean, k-th frame '
                'lost, peer abort while waiting for CTS, peer silent, nobody answering), spaced 0.2..4 s; then the full advertised concurrency '
                'is started (J1939-22: 8 RTS/CTS + 4 BAM at once; J1939-21: one transfer per pair) and must be accepted and delivered intact; '
                'every handler log replayed on the Coq models; non-trivial = a fault occurred or at least 3 history transfers'
                ' Outcomes include a peer that answers with hold CTS frames and then falls silent.')
    out.assumptions = ['A1-A6 of DESIGN.md section 3', 'the inductive theorem over whole job passes is not proved: each step kind (allocation, release, inbound) is']
    sprop.run_stateful(out, 'C10', tier, rng, work, FILES, gen, oracle, 80, 1500, nontrivial, runner=runner,
                       sample=lambda sc, res: dict(dll=sc.get('dll'), history=[(e['a'][1], e['a'][2], e.get('outcome')) for e in sc['script'] if e.get('hist')][:6],
                                                   final_returns=[r for ev, r in res.returns if ev.get('final')]))

    # two nodes sending connection-mode messages to EACH OTHER at overlapping times: the two directions are two connections, the
    # one does not take capacity from the other — both are accepted and both are delivered (both layers)
    import scen as _scen, oracle_tp as _otp
    for k in range(8 if tier == 'quick' else 80):
        dll = 'j1939-21' if k % 2 == 0 else 'j1939-22'
        unit = 7 if dll == 'j1939-21' else 60
        a, b = rng.sample([0x10, 0x20, 0x00, 0x81, 0xF0], 2)
        sc = dict(stacks=[dict(dll=dll, max_cmdt=rng.choice([1, 2, 255]), subs=[dict(cid=1, filt=a)], cas=[]),
                          dict(dll=dll, max_cmdt=rng.choice([1, 3, 255]), subs=[dict(cid=2, filt=b)], cas=[])],
                  lat=[rng.choice([1, 500, 2000])], jit=[1],
                  script=[dict(t=1000, s=0, op='send', a=[0, 0xD0, b, 6, a, dict(seed=rng.getrandbits(20), len=unit * rng.randint(4, 9) - rng.randint(0, unit - 1))]),
                          dict(t=1000 + rng.choice([0, 700, 3000, 9000]), s=1, op='send', a=[0, 0xD1, a, 6, b, dict(seed=rng.getrandbits(20), len=unit * rng.randint(2, 6) - rng.randint(0, unit - 1))])],
                  horizon=4_000_000, meta=dict(kind='crossing-transfers', dll=dll))
        res = _scen.run(sc)
        out.add_case(_scen.sc_hash(sc), True)
        v = [dict(kind='send-refused-while-the-peer-is-sending-to-us', call=ev['a'][:5], ret=str(r)) for ev, r in res.returns if ev['op'] == 'send' and r is not True]
        v += _otp.check_exactly_once(sc, res)
        for x in v[:1]:
            out.violation('%s (two nodes sending to each other): %s' % (x['kind'], str(x)[:250]), dict(kind=x['kind']),
                          dict(broke='oracle', scenario=sc, violation=x, scenario_name='crossing-transfers'))
            return

"""C15 — identifier and NAME codecs are exact inverses.  Proof on generated definitions + item-level
correspondence + oracle (property as a predicate over the real classes, against refpeer arithmetic)."""
import common as C
import items, refpeer as R

ITEMS = ['item_mid_of', 'item_mid_raw', 'item_mid_parse', 'item_pgn', 'item_pgn_from_mid',
         'item_name_value', 'item_name_bytes', 'item_name_fields']
FILES = ['theories/gen/Codec.v', 'theories/CodecGlue.v', 'proofs/CodecProofs.v', 'theories/Base.v']


def oracle(out, rng, n, sweep):
    from j1939.message_id import MessageId
    from j1939.parameter_group_number import ParameterGroupNumber as PGN
    from j1939.name import Name
    viol = []

    def bad(kind, inp, got, exp):
        viol.append((kind, inp, got, exp))

    ids = [t[0] for t in items.tuples(rng, [29], n)]
    if sweep:
        ids += [rng.getrandbits(29) for _ in range(200000)]
    for i in ids:
        m = MessageId(can_id=i)
        f = (m.priority, m.parameter_group_number, m.source_address)
        if f != R.ref_parse_id(i):
            bad('id-parse', i, f, R.ref_parse_id(i))
        back = MessageId(priority=f[0], parameter_group_number=f[1], source_address=f[2]).can_id
        if back != i:
            bad('id-parse-compose', i, back, i)
        out.add_case(('id', i), True)
    for p, g, s in items.tuples(rng, [3, 18, 8], n):
        cid = MessageId(priority=p, parameter_group_number=g, source_address=s).can_id
        if cid != R.ref_can_id(p, g, s):
            bad('id-compose', (p, g, s), cid, R.ref_can_id(p, g, s))
        m = MessageId(can_id=cid)
        if (m.priority, m.parameter_group_number, m.source_address) != (p, g, s):
            bad('id-compose-parse', (p, g, s), (m.priority, m.parameter_group_number, m.source_address), (p, g, s))
        out.add_case(('idc', p, g, s), True)
    # the same laws on objects that are USED AGAIN (one MessageId / Name parsed, read, given a second value, read again): what an
    # object composes must follow its current fields, whatever it composed or parsed before
    reuse = ids[:2000] if not sweep else ids[:40000]
    for i, j in zip(reuse, reuse[1:]):
        m = MessageId(can_id=i)
        _ = m.can_id
        m.can_id = j
        f = (m.priority, m.parameter_group_number, m.source_address)
        if f != R.ref_parse_id(j) or m.can_id != j:
            bad('id-reused-object-parse-compose', (i, j), (f, m.can_id), (R.ref_parse_id(j), j))
        m.priority = (f[0] + 1) % 8
        m.source_address = (f[2] + 1) % 256
        want = R.ref_can_id((f[0] + 1) % 8, f[1], (f[2] + 1) % 256)
        if m.can_id != want:
            bad('id-reused-object-field-change', (j,), m.can_id, want)
    pgns = range(2 ** 18) if sweep else [t[0] for t in items.tuples(rng, [18], n)]
    for g in pgns:
        pg = PGN()
        pg.from_message_id(MessageId(priority=0, parameter_group_number=g, source_address=0))
        dp, pf, ps = R.ref_pgn_fields(g)
        if (pg.data_page, pg.pdu_format, pg.pdu_specific) != (dp, pf, ps):
            bad('pgn-fields', g, (pg.data_page, pg.pdu_format, pg.pdu_specific), (dp, pf, ps))
        if pg.value != g % 2 ** 17:
            bad('pgn-value', g, pg.value, g % 2 ** 17)
        if PGN(dp, pf, ps).value != g % 2 ** 17:
            bad('pgn-ctor-value', g, PGN(dp, pf, ps).value, g % 2 ** 17)
        if bool(pg.is_pdu1_format) != (pf < 240) or bool(pg.is_pdu2_format) != (pf >= 240):
            bad('pgn-class', g, (pg.is_pdu1_format, pg.is_pdu2_format), (pf < 240, pf >= 240))
        out.add_case(('pgn', g), True)
        if g % 97 == 0 or not sweep:
            # ... and on an object that is used again: a field assigned afterwards changes that field and nothing else
            q = PGN(dp, pf, ps)
            q.pdu_specific = (ps + 1) % 256
            if (q.data_page, q.pdu_format, q.pdu_specific) != (dp, pf, (ps + 1) % 256) or q.value != ((dp << 16) | (pf << 8) | ((ps + 1) % 256)):
                bad('pgn-reused-object-ps', g, (q.data_page, q.pdu_format, q.pdu_specific, q.value), (dp, pf, (ps + 1) % 256))
            q.pdu_format = (pf + 1) % 256
            q.data_page = 1 - dp
            if (q.data_page, q.pdu_format, q.pdu_specific) != (1 - dp, (pf + 1) % 256, (ps + 1) % 256) or \
               q.value != (((1 - dp) << 16) | (((pf + 1) % 256) << 8) | ((ps + 1) % 256)):
                bad('pgn-reused-object-fields', g, (q.data_page, q.pdu_format, q.pdu_specific, q.value), (1 - dp, (pf + 1) % 256, (ps + 1) % 256))
    # ... and ONE object that parses one identifier after the other (a decoder that keeps a scratch object): what it reads
    # after each from_message_id is that identifier's PGN and nothing of the one before — pairs that differ in the data page,
    # the format byte or the specific byte in both directions among them
    scratch = PGN()
    seq = [t[0] for t in items.tuples(rng, [18], min(n, 400))]
    seq = [g2 for g in seq for g2 in (g, g ^ 0x10000, g, g | 0x10000, g & 0xFFFF, g ^ 0xFF, g ^ 0xFF00)]
    for g in seq:
        scratch.from_message_id(MessageId(priority=0, parameter_group_number=g, source_address=0))
        dp, pf, ps = R.ref_pgn_fields(g)
        if (scratch.data_page, scratch.pdu_format, scratch.pdu_specific, scratch.value) != (dp, pf, ps, g % 2 ** 17):
            bad('pgn-reused-object-from-message-id', g, (scratch.data_page, scratch.pdu_format, scratch.pdu_specific, scratch.value), (dp, pf, ps, g % 2 ** 17))
            break
    vals = [t[0] for t in items.tuples(rng, [64], n)]
    if sweep:
        vals += [rng.getrandbits(64) for _ in range(100000)]
    for v in vals:
        nm = Name(value=v)
        exp = R.ref_name_fields(v)
        exp['reserved_bit'] = 0
        got = {f: getattr(nm, f) for f, _, _ in R.NAME_LAYOUT}
        if got != exp:
            bad('name-fields', v, got, exp)
        ev = R.ref_name_value(exp)
        if nm.value != ev:
            bad('name-value', v, nm.value, ev)
        if list(nm.bytes) != R.ref_le_bytes(ev, 8):
            bad('name-bytes', v, list(nm.bytes), R.ref_le_bytes(ev, 8))
        nb = Name(bytes=R.ref_le_bytes(v, 8))
        if nb.value != ev or list(nb.bytes) != R.ref_le_bytes(ev, 8):
            bad('name-from-bytes', v, nb.value, ev)
        kw = {f: exp[f] for f in exp if f != 'reserved_bit'}
        nf = Name(**kw)
        if nf.value != ev or {f: getattr(nf, f) for f, _, _ in R.NAME_LAYOUT} != exp:
            bad('name-from-fields', v, nf.value, ev)
        out.add_case(('name', v), True)
    for v, w in list(zip(vals, vals[1:]))[:2000 if not sweep else 40000]:
        # (the value and bytes setters take all 64 bits as they are; only construction clears the reserved bit)
        nm = Name(value=v)
        _ = (nm.value, list(nm.bytes))
        nm.value = w
        got = {f: getattr(nm, f) for f, _, _ in R.NAME_LAYOUT}
        if got != R.ref_name_fields(w) or nm.value != w or list(nm.bytes) != R.ref_le_bytes(w, 8):
            bad('name-reused-object', (v, w), (nm.value, got), (w, R.ref_name_fields(w)))
        nm.bytes = R.ref_le_bytes(v, 8)
        if nm.value != v or {f: getattr(nm, f) for f, _, _ in R.NAME_LAYOUT} != R.ref_name_fields(v):
            bad('name-reused-object-from-bytes', (w, v), nm.value, v)
    return viol


def scenario_oracle(sc, res):
    import p_c04
    if isinstance(sc.get('meta'), dict) and sc['meta'].get('kind') == 'name-changed-between-contests':
        state, dev, ann, started = res.cas[0][0]
        keeps = (state == 2 and dev == sc['meta']['addr'])
        return [dict(kind='arbitration-not-decided-by-the-name-the-ca-has-now', final_state=state, final_address=dev)] if keeps == sc['meta']['contender_is_lower'] else []
    if isinstance(sc.get('meta'), dict) and sc['meta'].get('kind') == 'reserved-bit-on-the-wire':
        state, dev, ann, started = res.cas[0][0]
        keeps = (state == 2 and dev == sc['meta']['addr'])
        return [dict(kind='arbitration-decided-by-the-reserved-bit-of-the-contender', final_state=state, final_address=dev)] if keeps == sc['meta']['contender_is_lower'] else []
    return [x for x in p_c04.oracle(sc, res) if x['kind'] in ('lowest-name-does-not-keep', 'duplicate-address')]


def run(out, tier, rng, work):
    out.rule = ('item-level correspondence: bit-walking/boundary/random inputs through the real classes vs the generated Coq '
                'definitions (vm_compute); oracle: round-trip and SAE-position predicates on the real classes vs plain-arithmetic '
                'reference; non-trivial = every input (each exercises the codec); distinct by input value'
                ' Plus: a contender whose NAME has the reserved bit set on the wire; a CA whose application changes its identity number between two contests.  Arbitration NAMEs also differ in exactly two fields in opposite directions, every pair of the nine fields in turn.')
    C.std_proof_stage(out, 'C15', FILES)
    n = 400 if tier == 'quick' else 4000
    total, mism, errors = items.run_items(ITEMS, rng, n, work, C)
    out.traces_validated = total
    out.extra['item_cases'] = total
    for e in errors:
        out.broken.append('item correspondence %s did not evaluate: %s' % (e[0], e[1][-200:]))
    for m in mism[:50]:
        out.broken.append('correspondence %s: model and implementation differ on input %s (impl %s)' % (m[0], m[1], m[2]))
    viol = oracle(out, rng, n, sweep=(tier == 'thorough') or bool(out.broken))
    out.samples = [dict(kind='id', id=0x18FECA80, parsed=list(R.ref_parse_id(0x18FECA80))),
                   dict(kind='name', value=hex(0xFEDCBA9876543210))]
    if mism:
        out.samples.append(dict(kind='mismatch', item=mism[0][0], input=mism[0][1], impl=mism[0][2]))
    seen = set()
    for kind, inp, got, exp in viol:
        if kind in seen:
            continue
        seen.add(kind)
        out.violation('%s: input %s gives %s, expected %s' % (kind, inp, got, exp), dict(kind=kind),
                      dict(broke='oracle', oracle=kind, input=inp, observed=got, expected=exp,
                           how='python: see harness/p_c15.py oracle(); classes j1939.MessageId / ParameterGroupNumber / Name'))
    # "the NAME comparison used in address arbitration is the comparison of these 64-bit values": two CAs contend for one
    # address with NAMEs whose numeric order and byte-wise (little-endian) order disagree; the lower 64-bit value must keep it
    import scen, p_c04, gen_ca, json as _json
    worst = {}
    FIELDS = [(0, 21), (21, 11), (32, 3), (35, 5), (40, 8), (49, 7), (56, 4), (60, 3), (63, 1)]     # J1939-81: (lowest bit, width)
    PAIRS = [(i, j) for i in range(len(FIELDS)) for j in range(i + 1, len(FIELDS))]
    for k in range(110 if tier == 'quick' else 900):
        a = rng.getrandbits(64) & ~(1 << 48)
        b = rng.getrandbits(64) & ~(1 << 48)
        if k % 3 == 2:
            # the two NAMEs differ in exactly two fields, in opposite directions: the more significant field decides
            # (every pair of fields in turn — a comparison that visits the fields in any other order gets one of them wrong)
            (lo_bit, lo_w), (hi_bit, hi_w) = FIELDS[PAIRS[(k // 3) % len(PAIRS)][0]], FIELDS[PAIRS[(k // 3) % len(PAIRS)][1]]
            lo_a = rng.randrange(1, 1 << lo_w) if lo_w > 1 else 1
            lo_b = rng.randrange(0, lo_a)
            hi_b = rng.randrange(1, 1 << hi_w) if hi_w > 1 else 1
            hi_a = rng.randrange(0, hi_b)
            base = a & ~(((1 << lo_w) - 1) << lo_bit) & ~(((1 << hi_w) - 1) << hi_bit)
            a = base | (lo_a << lo_bit) | (hi_a << hi_bit)
            b = base | (lo_b << lo_bit) | (hi_b << hi_bit)
        elif k % 3 == 0:
            # numeric order decided by a high byte, byte-wise order by the lowest byte (opposite)
            hi, lo = rng.randrange(1, 255), rng.randrange(1, 255)
            a = (a & ~(0xFF << 56) & ~0xFF) | (hi << 56) | (lo + 1 if lo < 255 else lo)
            b = (a & ~(0xFF << 56) & ~0xFF) | ((hi + 1) << 56) | (lo - 1)
        if a == b:
            continue
        addr = rng.choice(gen_ca.VETO)
        names = [a, b]
        starts = [1000, rng.choice([1000, 120000, 600000])]
        if k % 5 == 4:
            # three contenders, one after the other, for the same address: the holder meets a weaker NAME first (keeps the
            # address), then a stronger one (yields) — each comparison is with the NAME in THAT claim
            lo, hi = min(a, b), max(a, b)
            mid = lo + (hi - lo) // 2
            if lo < mid < hi:
                names = [mid, hi, lo]
                starts = [1000, 600000, 1300000]
        dllk = rng.choice(['j1939-21', 'j1939-21', 'j1939-22'])
        stacks = [dict(dll=dllk, max_cmdt=1, subs=[],
                       cas=[dict(name=nm & ~(1 << 48), addr=addr, bypass=False, subs=[10 * i + 1], req=[10 * i + 2])]) for i, nm in enumerate(names)]
        t2 = starts[1]
        sc = dict(stacks=stacks, lat=[rng.choice([1, 5000])], jit=[1], horizon=5_000_000,
                  script=[dict(t=starts[i], s=i, op='ca_start', ca=0, delay=0) for i in range(len(names))])
        res = scen.run(sc)
        out.add_case(('arbitration', a, b, addr, t2), True)
        for x in p_c04.oracle(sc, res):
            if x['kind'] in ('lowest-name-does-not-keep', 'duplicate-address', 'claim-exchange-never-ends') and x['kind'] not in worst:
                worst[x['kind']] = (x, sc)
    # a contender that is not this library: its NAME arrives with the reserved bit SET on the wire.  The comparison is the one of
    # the NAME values ("the reserved bit reading as 0"): with everything above bit 48 equal, the lower 48 bits decide
    for k in range(12 if tier == 'quick' else 120):
        a = rng.getrandbits(64) & ~(1 << 48) & ~(1 << 63)        # (a fixed-address CA: a loss ends in cannot-claim)
        low_a = a & ((1 << 48) - 1)
        if low_a in (0, (1 << 48) - 1):
            continue
        lower = k % 3 != 2
        low_b = rng.randrange(0, low_a) if lower else rng.randrange(low_a + 1, 1 << 48)
        b_wire = (a & ~((1 << 48) - 1)) | low_b | (1 << 48)
        addr = rng.choice(gen_ca.VETO)
        sc = dict(stacks=[dict(dll=rng.choice(['j1939-21', 'j1939-22']), max_cmdt=1, subs=[], cas=[dict(name=a, addr=addr, bypass=False, subs=[1], req=[2])])],
                  lat=[1], jit=[1], horizon=2_000_000, script=[dict(t=1000, s=0, op='ca_start', ca=0, delay=0)],
                  inject=[dict(t=rng.choice([100000, 600000]), to=0, id=R.ref_can_id(6, 0xEEFF, addr), data=R.ref_le_bytes(b_wire, 8), via='listener')],
                  meta=dict(kind='reserved-bit-on-the-wire', own=hex(a), contender_on_wire=hex(b_wire), contender_is_lower=lower, addr=addr))
        res = scen.run(sc)
        out.add_case(('arbitration-reserved', a, b_wire, addr), True)
        state, dev, ann, started = res.cas[0][0]
        keeps = (state == 2 and dev == addr)
        if keeps == lower and 'reserved-bit' not in worst:
            worst['reserved-bit'] = (dict(kind='arbitration-decided-by-the-reserved-bit-of-the-contender', meta=sc['meta'], final_state=state, final_address=dev), sc)
    # the application changes its NAME (the identity number) between two contests: each contest is decided by the NAME the CA has
    # THEN — the one its address-claimed frames carry
    for k in range(10 if tier == 'quick' else 100):
        a = (rng.getrandbits(64) & ~(1 << 48) & ~(1 << 63) & ~((1 << 21) - 1)) | (1 << 20)      # identity number 0x100000
        up = k % 2 == 0
        new_id = (1 << 20) + 4096 if up else (1 << 20) - 4096
        a2 = (a & ~((1 << 21) - 1)) | new_id
        between = (a & ~((1 << 21) - 1)) | ((1 << 20) + (2048 if up else -2048))
        weak = a | (1 << 63)                                   # a first contender that loses in any case (fills whatever is remembered)
        addr = rng.choice(gen_ca.VETO)
        sc = dict(stacks=[dict(dll=rng.choice(['j1939-21', 'j1939-22']), max_cmdt=1, subs=[], cas=[dict(name=a, addr=addr, bypass=False, subs=[1], req=[2])])],
                  lat=[1], jit=[1], horizon=2_500_000,
                  script=[dict(t=1000, s=0, op='ca_start', ca=0, delay=0), dict(t=800000, s=0, op='ca_set_identity', ca=0, value=new_id)],
                  inject=[dict(t=500000, to=0, id=R.ref_can_id(6, 0xEEFF, addr), data=R.ref_le_bytes(weak, 8), via='listener'),
                          dict(t=1_200_000, to=0, id=R.ref_can_id(6, 0xEEFF, addr), data=R.ref_le_bytes(between, 8), via='listener')],
                  meta=dict(kind='name-changed-between-contests', own_before=hex(a), own_after=hex(a2), contender=hex(between), contender_is_lower=(between < a2), addr=addr))
        res = scen.run(sc)
        out.add_case(('arbitration-renamed', a, new_id, addr), True)
        state, dev, ann, started = res.cas[0][0]
        keeps = (state == 2 and dev == addr)
        if keeps == (between < a2) and 'renamed' not in worst:
            worst['renamed'] = (dict(kind='arbitration-not-decided-by-the-name-the-ca-has-now', meta=sc['meta'], final_state=state, final_address=dev), sc)
    for kind, (x, sc) in worst.items():
        out.violation('arbitration %s: %s' % (kind, _json.dumps(x, default=str)[:300]), dict(kind='arbitration-' + kind), dict(broke='oracle', scenario=sc, violation=x))

"""dm14cli.py — operation-sequence correspondence for the requesting side of DM14 (theories/Dm14Cli.v).
The REAL Dm14Query on a real ControllerApplication / ECU: read() / write() are single operations that carry the messages
arriving while they wait (handed to the CA's subscribers one by one until something is in the data queue);
ca.send_pgn is recorded instead of sent.  Outputs, result / exception and a summary of every attribute, both queues and
the subscriber list are compared with the Coq model per operation (flattened to integers)."""
import queue as _queue
import re, json
import vts, stack as S
from dm14srv import flat_list, opt, NONE, PGN, key_fn

C_ADDR = 0xF9


def flat_exc(ex):
    if isinstance(ex, AssertionError):
        return [4]
    if isinstance(ex, IndexError):
        return [5]
    t = str(ex)
    if 'No response' in t:
        return [1]
    m = re.match(r'Device (0x[0-9a-f]+) error: (0x[0-9a-f]+).*edcp: (0x[0-9a-f]+)', t)
    if m:
        return [2, int(m.group(1), 16), int(m.group(2), 16), int(m.group(3), 16)]
    if 'Key requested' in t:
        return [3]
    return [9]


class Rig:
    def __init__(self, sim, haskey):
        import j1939
        self.st = S.Stack(sim, 'j1939-21', 8)
        self.ca = self.st.add_ca(0x1111, C_ADDR, True)
        self.outs = []
        self.ca.send_pgn = self._send_pgn
        self.q = j1939.Dm14Query(self.ca)
        if haskey:
            self.q.set_seed_key_algorithm(key_fn)
        self.during = []
        dq = self.q.data_queue
        orig_get = dq.get

        def get(block=True, timeout=None):
            # the wait: messages are handed in until something has been put into the queue
            while self.during and not dq.items:
                pgn, sa, data = self.during.pop(0)
                try:
                    self.deliver(pgn, sa, data)
                except Exception:
                    pass
            self.during = []
            return orig_get(False)
        dq.get = get

    def _send_pgn(self, dp, pf, ps, prio, data, *a, **k):
        self.outs += [1, int(pf), int(ps), int(prio)] + flat_list(data)
        return True

    def deliver(self, pgn, sa, data):
        self.st.ecu._notify_subscribers(6, pgn, sa, 255, 0, bytearray(data))

    def summary(self):
        q = self.q
        g = lambda n, d=None: getattr(q, n, d)
        cmd = g('command')
        subs = []
        for d in self.st.ecu._subscribers:
            subs.append(0 if d['cb'] == q._parse_dm15 else 1 if d['cb'] == q._parse_dm16 else 9)
        out = [q.state.value, opt(g('_dest_address')), int(g('direct', 0)), int(g('address', 0)), int(g('object_count', 0)),
               int(g('object_byte_size', 1)), int(bool(g('signed', False))), int(bool(g('return_raw_bytes', False))), (cmd.value if cmd is not None else 0)]
        out += flat_list(g('bytes', []) or [])
        out += flat_list(q.mem_data)
        items = list(q.data_queue.items)
        out += [len(items)] + [x for it in items for x in flat_list(it)]
        xs = list(q.exception_queue.items)
        out += [len(xs)] + [x for e in xs for x in flat_exc(e)]
        out += flat_list(subs)
        return out

    def step(self, op):
        self.outs = []
        ret = [0]
        try:
            if op[0] == 'msg':
                self.deliver(op[1], op[2], op[3])
            elif op[0] == 'read':
                _, dest, direct, addr, cnt, size, signed, raw, during = op
                self.during = [tuple(x) for x in during]
                r = self.q.read(dest, direct, addr, cnt, size, bool(signed), bool(raw), 1)
                ret = [1] + flat_list(r)
            elif op[0] == 'write':
                _, dest, direct, addr, values, size, during = op
                self.during = [tuple(x) for x in during]
                r = self.q.write(dest, direct, addr, list(values), size, 1)
                ret = [0] if r is None else [1] + flat_list(r)
        except Exception as ex:
            ret = [2] + flat_exc(ex)
        self.during = []
        return [len(self.outs)] + self.outs + ret + self.summary()


def run_impl(case):
    sim = vts.Sim(jitters=[1])
    try:
        rig = Rig(sim, case['haskey'])
        return [rig.step(op) for op in case['ops']]
    finally:
        sim.close()


# ---------------------------------------------------------------------------------------------- generator
def dm15(kind, direct=1, count=0, seed=0xFFFF, error=0, edcp=0xFF, status=None):
    if kind == 'proceed':
        return [count, (direct << 4) + (0 << 1) + 1, 0xFF, 0xFF, 0xFF, 0xFF, seed & 0xFF, seed >> 8]
    if kind == 'seed':
        return [0, (direct << 4) + (0 << 1) + 1, 0xFF, 0xFF, 0xFF, 0xFF, seed & 0xFF, seed >> 8]
    if kind == 'complete':
        return [0, (direct << 4) + (4 << 1) + 1, 0xFF, 0xFF, 0xFF, 0xFF, 0xFF, 0xFF]
    st = 5 if status is None else status
    return [0, (direct << 4) + (st << 1) + 1, error & 0xFF, (error >> 8) & 0xFF, (error >> 16) & 0xFF, edcp, 0xFF, 0xFF]


def gen_case(rng, malformed=False):
    haskey = rng.random() < 0.5
    server = rng.choice([0xD4, 0x00, 0x31])
    other = rng.choice([0xA7, 0x32])
    ops = []
    for _ in range(rng.randint(1, 4)):
        read = rng.random() < 0.55
        direct = rng.randint(0, 1)
        addr = rng.choice([0, 0x92000003, rng.getrandbits(32)])
        size = rng.choice([1, 1, 2, 4, 8])
        cnt = rng.randint(1, 6)
        seedkey = rng.random() < 0.4
        fate = rng.choice(['ok', 'ok', 'ok', 'error', 'busy', 'silent', 'early-stop', 'wrong-count', 'error-edcp'])
        during = []
        if seedkey:
            during.append((PGN['DM15'], server, dm15('seed', direct, seed=rng.choice([0xA55A, 1, 0xFFFE, rng.randrange(1, 0xFFFF)]))))
        nbytes = cnt * size
        if fate == 'error':
            during.append((PGN['DM15'], server, dm15('error', direct, error=rng.choice([0x1003, 0x100, 2, 0x10000, 0xFFFFFE, 0x777]), edcp=rng.choice([6, 7]))))
        elif fate == 'error-edcp':
            during.append((PGN['DM15'], server, dm15('error', direct, error=rng.choice([0x1003, 5]), edcp=rng.choice([0xFF, 0, 3]))))
        elif fate == 'busy':
            during.append((PGN['DM15'], server, dm15('error', direct, error=2, edcp=7, status=1)))
        elif fate != 'silent':
            pc = cnt if fate != 'wrong-count' else cnt + 1
            during.append((PGN['DM15'], server, dm15('proceed', direct, count=pc)))
            if read:
                data = [rng.randrange(256) for _ in range(rng.choice([nbytes, nbytes, nbytes - 1 if nbytes > 1 else 1, 0]))]
                if rng.random() < 0.3:
                    data = [rng.choice([0x80, 0xFF, 0x7F, 0x00]) for _ in data]
                during.append((PGN['DM16'], server, [len(data) if len(data) <= 7 else 0xFF] + data + ([0xFF] * (7 - len(data)) if len(data) < 7 else [])))
            if fate != 'early-stop':
                during.append((PGN['DM15'], server, dm15('complete', direct)))
        # noise: frames from other nodes, other PGNs, duplicates
        k = 0
        while k <= len(during):
            r = rng.random()
            if r < 0.12:
                during.insert(k, (rng.choice([PGN['DM15'], PGN['DM16'], PGN['DM14']]), other, [rng.randrange(256) for _ in range(8)]))
                k += 1
            elif malformed and r < 0.22:
                during.insert(k, (rng.choice([PGN['DM15'], PGN['DM16']]), server, [rng.randrange(256) for _ in range(rng.choice([0, 1, 2, 5, 7, 8, 9]))]))
                k += 1
            elif r < 0.27 and during:
                during.insert(k, during[rng.randrange(len(during))])
                k += 1
            k += 1
        if read:
            ops.append(('read', server, direct, addr, cnt, size, rng.random() < 0.5, rng.random() < 0.4, during))
        else:
            values = [rng.choice([0, 1, (1 << (8 * size)) - 1, rng.getrandbits(8 * size)]) for _ in range(cnt)]
            ops.append(('write', server, direct, addr, values, size, during))
        if rng.random() < 0.2:
            ops.append(('msg', rng.choice([PGN['DM15'], PGN['DM16']]), server, dm15('complete')))
    return dict(haskey=haskey, ops=ops)


# ---------------------------------------------------------------------------------------------- Coq side
def zl(l):
    return '[' + '; '.join('(%d)' % int(x) if int(x) < 0 else str(int(x)) for x in l) + ']'


def du_coq(du):
    return '[' + '; '.join('(%d, %d, %s)' % (p, s, zl(d)) for (p, s, d) in du) + ']'


def op_coq(op):
    if op[0] == 'msg':
        return '(CMsg %d %d %s)' % (op[1], op[2], zl(op[3]))
    if op[0] == 'read':
        _, dest, direct, addr, cnt, size, signed, raw, during = op
        return '(CRead %d %d %d %d %d %s %s %s)' % (dest, direct, addr, cnt, size, 'true' if signed else 'false', 'true' if raw else 'false', du_coq(during))
    _, dest, direct, addr, values, size, during = op
    return '(CWrite %d %d %d %s %d %s)' % (dest, direct, addr, zl(values), size, du_coq(during))


def case_coq(case, expected):
    return '(%s, [%s], [%s])' % ('true' if case['haskey'] else 'false', '; '.join(op_coq(o) for o in case['ops']), '; '.join(zl(r) for r in expected))


HEADER = ('From J1939 Require Import Base Dm14Srv Dm14Replay Dm14Cli Dm14CliReplay.\nFrom Coq Require Import ZArith List.\nImport ListNotations.\nOpen Scope Z_scope.\n')


def correspond(cases, work, C, tag='dm14cli'):
    impl = [run_impl(c) for c in cases]
    files = []
    per = 60
    for k in range(0, len(cases), per):
        body = 'Definition cases := [\n' + ';\n'.join(case_coq(c, e) for c, e in zip(cases[k:k + per], impl[k:k + per])) + '].\n'
        body += 'Eval vm_compute in (cli_mismatches cases).\n'
        files.append(('%s_%d' % (tag, k), HEADER + body))
    res = C.run_many_cases(work, files, timeout=300, par=8)
    mism, errors = [], []
    for name, _ in files:
        rc, out = res[name]
        k = int(name.rsplit('_', 1)[1])
        if rc != 0:
            errors.append((name, out[-600:]))
            continue
        idx = C.parse_nat_list(out)
        if len(idx) != 1:
            errors.append((name, 'unparsable: ' + out[-300:]))
            continue
        mism += [k + i for i in idx[0]]
    return sum(len(c['ops']) for c in cases), mism, errors, impl


def model_records(case, work, C):
    body = 'Eval vm_compute in (cli_records %s).\n' % case_coq(case, [])
    res = C.run_many_cases(work, [('dm14cli_full', HEADER + body)], timeout=120, par=1)
    rc, out = res['dm14cli_full']
    return (C.parse_list_list(out) if rc == 0 else None), out


def stage(out, tier, rng, work, C, n_quick=150, n_thorough=2500):
    n = n_quick if tier == 'quick' else n_thorough
    cases = [gen_case(rng, malformed=(i % 3 == 2)) for i in range(n)]
    total, mism, errors, impl = correspond(cases, work, C)
    out.traces_validated = (out.traces_validated or 0) + total
    out.extra['dm14_client_op_sequences'] = dict(cases=n, operations=total, malformed_stream=n // 3)
    for e in errors:
        out.broken.append('DM14 client correspondence %s did not evaluate: %s' % (e[0], e[1][-200:]))
    for k in mism[:3]:
        detail = ''
        recs, _ = model_records(cases[k], work, C)
        if recs is not None:
            for i, (a, b) in enumerate(zip(impl[k], recs)):
                if list(a) != list(b):
                    detail = ' first difference at operation %d %s: impl %s model %s' % (i, str(cases[k]['ops'][i])[:120], a[:24], b[:24])
                    break
        out.broken.append('DM14 client model and implementation differ on an operation sequence (%d ops)%s' % (len(cases[k]['ops']), detail))
    return mism

"""C06 — lost frames or a vanished peer end a transfer cleanly, never with corrupt data (fault enumeration)."""
import json
import common as C
import scen, sprop, oracle_tp
from scen import payload

FILES = ['theories/Base.v', 'theories/gen/Codec.v', 'theories/gen/Tp21Gen.v', 'theories/gen/CaGen.v', 'theories/CodecGlue.v',
         'theories/Model21.v', 'theories/Replay21.v', 'proofs/CodecProofs.v', 'proofs/Flat.v', 'proofs/Tp21Seg.v',
         'proofs/Tp21Resp.v', 'proofs/Tp21Orig.v', 'proofs/TimeoutProofs.v',
         'theories/gen/Tp22Gen.v', 'theories/Model22.v', 'proofs/MpgProofs.v', 'proofs/PoolProofs.v', 'proofs/Tp22Proofs.v',
         'proofs/RobustProofs.v', 'proofs/NoOversleep.v', 'proofs/NoOversleep22.v',
         'proofs/Net21.v', 'proofs/Net21Proofs.v', 'proofs/Net21Timeout.v', 'proofs/Tp22Resp.v', 'proofs/Net22.v', 'proofs/Net22Proofs.v', 'proofs/Net22Bam.v', 'proofs/Net22Timeout.v', 'proofs/TimeoutProofs22.v']
T_FOLLOW = {'j1939-21': 7_000_000, 'j1939-22': 9_000_000}
BOUND = {'j1939-21': 1_250_000, 'j1939-22': 3_000_000}
PROBE = 25_000


def base(dll, kind, npk, win, seed, paced=False, soon=False):
    unit = 7 if dll == 'j1939-21' else 60
    size = unit * npk - (seed % (unit - 1))          # npk packets, last one partial (or full when seed % .. == 0)
    # address 0 is an address like any other: it takes its turn on either side
    sa, db = [(0x10, 0x20), (0x00, 0x20), (0x10, 0x00), (0xF9, 0xFD)][(seed // 2) % 4]
    da = 255 if kind == 'bam' else db
    maxa = 255 if win == 'all' else win
    maxb = 255 if win == 'all' else win
    stacks = [dict(dll=dll, max_cmdt=maxa, subs=[dict(cid=1, filt=sa)], cas=[]),
              dict(dll=dll, max_cmdt=maxb, subs=[dict(cid=2, filt=db)], cas=[])]
    if paced:
        # the originator spaces its data packets (a configured minimum interval): after a loss in the middle of a window it goes on
        # sending for a while, so the RESPONDER's time limit runs out first and its abort reaches an originator still waiting
        stacks[0]['cmdt_iv'] = 0.05
    pf, ps = (0xFE, 0xCA) if kind == 'bam' and seed % 2 else (0xD0, da)
    tf = T_FOLLOW[dll] + (npk * 60000 if kind == 'bam' else 0)
    if soon:
        # the next broadcast of the same source is announced shortly after the first has gone out — before a receiver that missed
        # a frame has given the incomplete one up (T1 = 750 ms): it is delivered intact all the same, and nothing else is
        tf = 1000 + (npk + 1) * (50000 if dll == 'j1939-21' else 10000) + 120000
    script = [dict(t=1000, s=0, op='send', a=[0, pf, ps, 6, sa, dict(seed=seed, len=size)]),
              dict(t=tf, s=0, op='send', a=[0, pf, ps, 6, sa, dict(seed=seed + 1, len=size + 1)])]
    horizon = tf + 5_000_000 + npk * 60000
    script += [dict(t=t, s=0, op='probe') for t in range(PROBE, horizon, PROBE)]
    if seed % 2 == 0:
        # the applications run cyclic timers of their own (about 1 s): serving them must not postpone the give-up of a session
        script += [dict(t=300, s=0, op='add_timer', cid=900, delta=1_000_000, ret=True), dict(t=700, s=1, op='add_timer', cid=901, delta=930_000, ret=True)]
    if dll == 'j1939-22' and seed % 3 == 1:
        # both applications have a short parameter group waiting in a multi-PG collection buffer with a long time limit (4 s):
        # a deadline that far away must not postpone the give-up of a session either
        script += [dict(t=1100, s=0, op='send', a=[0, 0xD1, db, 6, sa, dict(seed=seed + 3, len=5), 4_000_000, 3]),
                   dict(t=1150, s=1, op='send', a=[0, 0xD2, sa, 6, db, dict(seed=seed + 4, len=6), 4_000_000, 3])]
    script.sort(key=lambda e: e['t'])
    return dict(stacks=stacks, lat=[500], jit=[1], script=script, horizon=horizon, faults=[], tf=tf, kind=kind, dll=dll)


def cases(dll, kind, npk, win, seed, paced=False, soon=False):
    """the clean run plus every single-frame loss and every silence point"""
    sc0 = base(dll, kind, npk, win, seed, paced, soon)
    res0 = scen.run(sc0)
    nfr = sum(1 for e in res0.trace if e[2] == 'tx' and e[0] < sc0['tf'])
    per = [sum(1 for e in res0.trace if e[2] == 'tx' and e[0] < sc0['tf'] and e[1] == s) for s in (0, 1)]
    out = [(sc0, res0)]
    for k in range(1, nfr + 1):
        out.append((dict(sc0, faults=[dict(drop=k)]), None))
    if soon:
        return out
    for s in (0, 1):
        for k in range(1, per[s] + 1):
            out.append((dict(sc0, faults=[dict(silent=[s, k], until=sc0['tf'] - 500_000)]), None))
    return out


def bg_cases(dll, win, seed):
    """the responder is in the middle of receiving a long broadcast from a third node (an OLDER receive session, not due for a
    long time) when the originator of a connection-mode transfer falls silent: that younger session is given up in time all
    the same"""
    sc0 = base(dll, 'p2p', 3, win, seed)
    sc0['stacks'].append(dict(dll=dll, max_cmdt=1, subs=[dict(cid=3, filt=0x50)], cas=[]))
    n_bg = 7 * 55 if dll == 'j1939-21' else 60 * 290          # about 2.8 s of broadcast
    sc0['script'].append(dict(t=200, s=2, op='send', a=[0, 0xFE, 0x77, 6, 0x50, dict(seed=seed + 7, len=n_bg)]))
    sc0['script'].sort(key=lambda e: e['t'])
    sc0['bg'] = True
    res0 = scen.run(sc0)
    per0 = sum(1 for e in res0.trace if e[2] == 'tx' and e[0] < sc0['tf'] and e[1] == 0)
    out = []
    for k in range(2, per0 + 1):
        out.append((dict(sc0, faults=[dict(silent=[0, k], until=sc0['tf'] - 500_000)]), None))
    return out


def is_abort(e, dll):
    pf = (e[3] >> 16) & 0xFF
    if dll == 'j1939-21':
        return pf == 0xEC and len(e[6]) >= 2 and e[6][0] == 255
    return pf == 0x4D and len(e[6]) >= 9 and (e[6][0] & 0xF) == 15


def abort_reason(e, dll):
    return e[6][1] if dll == 'j1939-21' else e[6][8]


def oracle(sc, res):
    v = []
    dll, tf = sc['dll'], sc['tf']
    sends = [e for e in sc['script'] if e['op'] == 'send' and e['s'] == 0 and len(e['a']) <= 6]       # (not the waiting multi-PG groups)
    p1 = tuple(payload(sends[0]['a'][5]))
    p2 = tuple(payload(sends[1]['a'][5]))
    # 1. exact payload or nothing
    a0 = sends[0]['a']
    pg = oracle_tp.expected_pgn(a0[0], a0[1], a0[2])      # callbacks of THIS transfer (a background broadcast has another PGN)
    first = [e for e in res.trace if e[2] == 'cb' and e[1] == 1 and e[0] < tf and e[5] == pg]
    for e in first:
        if tuple(e[7]) != p1:
            v.append(dict(kind='corrupt-or-truncated-delivery', t=e[0], length=len(e[7]), expected_length=len(p1), faults=sc['faults']))
    if len(first) > 1:
        v.append(dict(kind='duplicate-delivery', n=len(first), faults=sc['faults']))
    # 2. both stacks give the session up within the bound after the last frame of the first exchange
    frames = [e for e in res.trace if e[2] in ('tx',) and e[0] < tf and ((e[3] >> 16) & 0xFF) != 0x25]     # (not the multi-PG frames of the waiting groups)
    probes = [e for e in res.trace if e[2] == 'probe' and e[0] < tf]
    # the bound of the state: 1.25 s everywhere, 3 s only where an FD originator has sent its end-of-message status and waits for
    # the acknowledge ("at most 1.25 s, 3 s when waiting for an FD end-of-message acknowledge")
    eoms_any = dll != 'j1939-21' and any(((e[3] >> 16) & 0xFF) == 0x4D and len(e[6]) >= 1 and (e[6][0] & 0xF) == 2 and e[1] == 0 for e in frames)
    bound = BOUND[dll] if (dll == 'j1939-21' or eoms_any) else 1_250_000
    if frames and not sc.get('bg'):
        # the clock of the bound starts at the last frame that is not itself an abort caused by giving up
        lastf = max(e[0] for e in frames if not is_abort(e, dll)) if any(not is_abort(e, dll) for e in frames) else frames[-1][0]
        limit = lastf + bound + 2 * PROBE + 2000
        late = [p for p in probes if p[0] > limit and any(p[5])]       # transport sessions (a group waiting out its time limit is none)
        if late:
            v.append(dict(kind='session-not-released-in-time', last_frame=lastf, still_open_at=late[-1][0], open=late[-1][3], faults=sc['faults']))
    for p in probes:
        if any(s != 'alive' for s in p[4]):
            v.append(dict(kind='job-thread-' + str(p[4]), t=p[0], faults=sc['faults']))
            break
    # 3. aborts
    aborts = [e for e in frames if is_abort(e, dll)]
    acked = any(e[2] == 'cb' and e[1] == 0 and e[0] < tf and e[5] == pg for e in res.trace)
    if sc['kind'] == 'bam':
        if aborts:
            v.append(dict(kind='abort-in-broadcast-transfer', faults=sc['faults']))
    else:
        eoms_sent = dll != 'j1939-21' and any(((e[3] >> 16) & 0xFF) == 0x4D and len(e[6]) >= 1 and (e[6][0] & 0xF) == 2 and e[1] == 0 for e in frames)
        # (an FD originator that has sent its end-of-message status waits for the EOM acknowledge: no abort is asked for then)
        if not acked and sc['faults'] and not eoms_sent:
            if not any(abort_reason(e, dll) == 3 for e in aborts):
                v.append(dict(kind='no-timeout-abort-sent', faults=sc['faults'], delivered=bool(first)))
        # the side that is left waiting says so: when one stack falls silent for good, the abort must come from the OTHER one
        for f in sc['faults']:
            if 'silent' in f and not acked:
                quiet, kf = f['silent']
                other = 1 - quiet
                if (other == 0 and not eoms_sent) or (other == 1 and kf >= 2 and not first):
                    mine = [e for e in aborts if e[1] == other and abort_reason(e, dll) == 3]
                    if not mine:
                        v.append(dict(kind='no-timeout-abort-from-the-side-left-waiting', side=other, faults=sc['faults']))
                    else:
                        # ... and in time: within the bound after the last frame of THIS transfer that reached the bus
                        pair = {a0[4] & 0xFF, a0[2] & 0xFF}
                        mine_fr = [e[0] for e in frames if e[1] in (0, 1) and not is_abort(e, dll) and {e[3] & 0xFF, (e[3] >> 8) & 0xFF} == pair]
                        if mine_fr and mine[0][0] > max(mine_fr) + bound + 2 * PROBE + 2000:
                            v.append(dict(kind='timeout-abort-later-than-the-bound', side=other, last_frame=max(mine_fr), abort_at=mine[0][0], faults=sc['faults']))
        for e in aborts:
            if abort_reason(e, dll) not in (1, 2, 3):
                v.append(dict(kind='abort-reason', reason=abort_reason(e, dll)))
            # "sending a connection-abort TO THE PEER": from the address of the stack that gives up, to the other end
            a = sends[0]['a']
            me, peer = (a[4], a[2]) if e[1] == 0 else (a[2], a[4])
            if (e[3] & 0xFF, (e[3] >> 8) & 0xFF) != (me & 0xFF, peer & 0xFF):
                v.append(dict(kind='abort-not-addressed-to-the-peer', stack=e[1], id=hex(e[3]), expected_sa=me, expected_da=peer, faults=sc['faults']))
    # 4. recovery: the follow-up transfer on the same pair is accepted and delivered intact
    ret2 = [r for ev, r in res.returns if ev['op'] == 'send' and ev['t'] == tf]
    if ret2 != [True]:
        v.append(dict(kind='follow-up-refused', ret=str(ret2), faults=sc['faults']))
    second = [e for e in res.trace if e[2] == 'cb' and e[1] == 1 and e[0] >= tf and e[5] == pg]
    if [tuple(e[7]) for e in second] != [p2]:
        v.append(dict(kind='follow-up-not-delivered-intact', n=len(second), faults=sc['faults']))
    if not all(res.empty):
        v.append(dict(kind='session-left-at-end', faults=sc['faults']))
    return v


def shapes(tier, dlls):
    if tier == 'quick':
        pk, wins = [2, 3, 5], [1, 'all']
    else:
        pk, wins = list(range(2, 13)), [1, 2, 3, 'all']
    for dll in dlls:
        for kind in ('bam', 'p2p'):
            for npk in pk:
                for win in (wins if kind == 'p2p' else [1]):
                    yield dll, kind, npk, win
                if tier == 'quick' and kind == 'p2p' and npk == 5:
                    yield dll, kind, npk, 2          # one shape with several windows of more than one packet in the quick tier too


def explore(out, tier, dlls, limit=None):
    viol = []
    runs = []
    n = 0
    for dll, kind, npk, win in shapes(tier, dlls):
        seed = npk * 31 + (7 if win == 'all' else win)
        extra = bg_cases(dll, win, seed) if (kind == 'p2p' and npk == 3 and win == 1) else []
        if kind == 'p2p' and npk == 5 and win == 2:
            extra = extra + cases(dll, kind, npk, win, seed=seed + 1, paced=True)
        if kind == 'bam' and npk in (3, 5, 8):
            extra = extra + cases(dll, kind, npk, win, seed=seed + 2, soon=True)
        for sc, res in cases(dll, kind, npk, win, seed=seed) + extra:
            if res is None:
                res = scen.run(sc)
            n += 1
            runs.append((sc, res))
            out.add_case(scen.sc_hash(sc), bool(sc['faults']),
                         sample=dict(dll=dll, kind=kind, packets=npk, window=win, faults=sc['faults']) if (sc['faults'] and len(out.samples) < 5) else None)
            for x in oracle(sc, res):
                viol.append((x, sc))
            if limit and n >= limit:
                return viol, runs
    return viol, runs


def run(out, tier, rng, work):
    import corr21
    out.level = 'proof'
    out.rule = ('fault enumeration on the real code: for every transfer shape (BAM and RTS/CTS, J1939-21 and J1939-22, 2..12 packets '
                '(quick: 2,3,5), windows 1,2,3,all (quick: 1,all, and 2 for 5 packets)) the clean run, loss of the k-th bus frame for EVERY k, and silence of '
                'either peer from its k-th frame for EVERY k, each followed by a fresh transfer on the same pair; oracle: deliveries are the '
                'exact payload or nothing, both session tables empty within 1.25 s (FD: 3 s) of the last frame (probes every 25 ms), timeout '
                'abort present where asked, follow-up delivered intact; J1939-21 handler logs replayed on the Coq model; '
                'non-trivial = a fault was injected'
                ' One shape per layer with an originator that spaces its data packets (the responder gives up first).  Addresses rotate incl. 0 on either side; when one stack falls silent for good the time-out abort must come from the other one.')
    out.assumptions = ['A1-A6 of DESIGN.md section 3; bound checked with 50 ms probe granularity plus jitter',
                       'J1939-22 is covered here by fault enumeration and oracle only (its Coq model belongs to C02)']
    C.std_proof_stage(out, 'C06', FILES)
    viol, runs = explore(out, tier, ['j1939-21', 'j1939-22'])
    out.extra['exhaustive'] = True
    out.extra['fault_runs'] = len(runs)
    sub = [r for r in runs if r[0]['dll'] == 'j1939-21']
    step = max(1, len(sub) // (150 if tier == 'quick' else 1500))
    ntr, mism, errors = corr21.correspond(work, sub[::step], tag='c06')
    out.traces_validated = ntr
    for e in errors:
        out.broken.append('correspondence %s did not evaluate: %s' % (e[0], e[1][-300:].replace('\n', ' ')))
    for (k, j, g) in mism[:5]:
        sc = sub[::step][k][0]
        out.broken.append('correspondence: model and implementation differ in fault case %s %s packets faults=%s stack %d' % (sc['dll'], sc['kind'], sc['faults'], j))
    worst = {}
    for x, sc in viol:
        if x['kind'] not in worst or len(json.dumps(sc)) < len(json.dumps(worst[x['kind']][1])):
            worst[x['kind']] = (x, sc)
    for kind, (x, sc) in worst.items():
        out.violation('%s: %s' % (kind, json.dumps(x, default=str)[:300]), dict(kind=kind), dict(broke='oracle', scenario=sc, violation=x))

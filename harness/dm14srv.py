"""dm14srv.py — operation-sequence correspondence for the serving side of DM14 (theories/Dm14Srv.v).
The REAL MemoryAccess facade + DM14Server on a real ControllerApplication / ECU are driven with messages handed to the
CA's subscribers (ecu._notify_subscribers), respond() and reset_query(); ca.send_pgn is recorded instead of sent.
The same operation list is evaluated on the Coq model; per operation the outputs, the return/exception and a summary of
every attribute of the two objects plus the subscriber list are compared (flattened to integers)."""
import queue as _queue
import json
import vts, stack as S

S_ADDR = 0xD4
PGN = dict(DM14=55552, DM15=55296, DM16=55040)
EXC = {'IndexError': 1, 'AttributeError': 2, 'ValueError': 3, 'TypeError': 4, 'Empty': 5, 'RuntimeWarning': 6}
NONE = -1


def key_fn(seed):
    return seed ^ 0xFFFF


def flat_list(l):
    if l is None:
        return [NONE]
    l = [int(x) for x in l]
    return [len(l)] + l


def opt(v):
    return NONE if v is None else int(v)


class Rig:
    def __init__(self, sim, seedsec, hasproceed, seeds, answers):
        import j1939
        self.j = j1939
        self.st = S.Stack(sim, 'j1939-21', 8)
        self.ca = self.st.add_ca(0x2222, S_ADDR, True)
        self.outs = []
        self.ca.send_pgn = self._send_pgn
        self.ma = j1939.MemoryAccess(self.ca)
        self.seeds = list(seeds)
        self.answers = list(answers)
        if seedsec:
            self.ma.set_seed_key_algorithm(key_fn)
            self.ma.set_seed_generator(self._seed)
        if hasproceed:
            self.ma.set_proceed(self._proceed)
        self.ma.set_notify(self._notify)
        self.during = []

        # the node's own query: the real facade code (state WAIT_QUERY, try/finally) runs; the Dm14Query underneath is
        # replaced by the delivery of the messages that arrive while it would wait (the query itself: harness/dm14cli.py)
        def stub(result):
            def f(*a, **k):
                for (pgn, sa, data) in self.during:
                    try:
                        self.deliver(pgn, sa, data)
                    except Exception:
                        pass
                self.during = []
                return result
            return f
        self.ma.query.read = stub([])
        self.ma.query.write = stub(None)
        q = self.ma.server.data_queue
        orig_get = q.get

        def get(block=True, timeout=None):
            # the wait of respond(): the messages that arrive meanwhile are delivered now (exceptions swallowed, as the
            # bus listener does), then the queue is read without blocking
            for (pgn, sa, data) in self.during:
                try:
                    self.deliver(pgn, sa, data)
                except Exception:
                    pass
            self.during = []
            return orig_get(False)
        q.get = get

    def _send_pgn(self, dp, pf, ps, prio, data, *a, **k):
        self.outs += [1, int(pf), int(ps), int(prio)] + flat_list(data)
        return True

    def _seed(self):
        return self.seeds.pop(0) if self.seeds else 0xBEEF

    def _proceed(self, command, address, pointer_type, length, object_count, key, sa, level, seed):
        self.outs += [2, int(command), int(address), int(pointer_type), int(length), int(object_count), int(key), int(sa), int(level), int(seed)]
        return self.answers.pop(0) if self.answers else True

    def _notify(self):
        self.outs += [3]

    def deliver(self, pgn, sa, data):
        self.st.ecu._notify_subscribers(6, pgn, sa, 255, 0, bytearray(data))

    def cbid(self, cb):
        m, sv = self.ma, self.ma.server
        if cb == m._listen_for_dm14:
            return 0
        if cb == sv.parse_dm14:
            return 1
        if cb == sv._parse_dm16:
            return 2
        return 9

    def summary(self):
        sv, m = self.ma.server, self.ma
        g = lambda n: getattr(sv, n, None)
        subs = [self.cbid(d['cb']) for d in self.st.ecu._subscribers]
        qitems = list(getattr(sv.data_queue, "items", None) if hasattr(sv.data_queue, "items") else sv.data_queue.queue)
        out = [int(bool(sv._busy)), opt(sv.sa), sv.state.value] + flat_list(sv.address) + [int(sv.length), int(bool(sv.proceed))]
        out += flat_list(sv.data) + [int(sv.error), int(sv.edcp), int(sv.status), int(sv.direct)]
        out += [opt(g('command')), opt(g('pointer_type')), opt(g('object_count')), opt(g('access_level')), opt(g('seed')), opt(g('key'))]
        out += [len(qitems)] + [x for it in qitems for x in flat_list(it)]
        out += [m.state.value] + flat_list(subs) + [len(self.seeds), len(self.answers)]
        return out

    def step(self, op):
        """returns the flat record of one operation: outs ++ [ret tag ...] ++ summary"""
        self.outs = []
        ret = [0]
        try:
            if op[0] == 'msg':
                self.deliver(op[1], op[2], op[3])
            elif op[0] == 'respond':
                self.during = [tuple(x) for x in op[5]]
                r = self.ma.respond(bool(op[1]), list(op[2]), op[3], op[4])
                ret = [0] if r is None else [1] + flat_list(r)
            elif op[0] == 'reset':
                self.ma.reset_query()
            elif op[0] == 'query':
                self.during = [tuple(x) for x in op[2]]
                if op[1]:
                    r = self.ma.read(0xD0, 1, 0x1000, 1)
                    ret = [1] + flat_list(r)
                else:
                    self.ma.write(0xD0, 1, 0x1000, [1])
        except _queue.Empty:
            ret = [2, EXC['Empty']]
        except Exception as ex:
            ret = [2, EXC.get(type(ex).__name__, 99)]
        self.during = []
        return [len(self.outs)] + self.outs + ret + self.summary()


def run_impl(case):
    """case = dict(seedsec, hasproceed, seeds, answers, ops) -> list of per-op flat records"""
    sim = vts.Sim(jitters=[1])
    try:
        rig = Rig(sim, case['seedsec'], case['hasproceed'], case['seeds'], case['answers'])
        return [rig.step(op) for op in case['ops']]
    finally:
        sim.close()


# ---------------------------------------------------------------------------------------------- generator
def dm14(count, direct, cmd, addr, key, length=8):
    d = [count & 0xFF, ((direct & 1) << 4) + ((cmd & 7) << 1) + 1] + [(addr >> (8 * i)) & 0xFF for i in range(4)] + [key & 0xFF, (key >> 8) & 0xFF]
    return d[:length] if length <= 8 else d + [0xFF] * (length - 8)


def dm16(data):
    return [len(data) if len(data) <= 7 else 0xFF] + list(data)


def gen_case(rng, malformed=False):
    seedsec = rng.random() < 0.5
    hasproceed = rng.random() < 0.8
    seeds = [rng.choice([0xA55A, 0x1234, 0, 0xFFFF, rng.randrange(65536)]) for _ in range(rng.randint(0, 6))]
    answers = [rng.random() < 0.8 for _ in range(rng.randint(0, 6))]
    ops = []
    client = rng.choice([0xF9, 0x00, 0x00, 0x31])
    other = rng.choice([0xA7, 0x32, 0xFE])
    seed_iter = list(seeds)

    cur = {'addr': 0, 'count': 1, 'direct': 1}

    def intruder():
        k = rng.random()
        if k < 0.3:
            # another source address naming the SAME pointer (and sometimes the same count) as the running request
            return ('msg', PGN['DM14'], other, dm14(cur['count'] if rng.random() < 0.5 else rng.randint(1, 9), cur['direct'], rng.choice([1, 2, 4]), cur['addr'], rng.choice([0xFFFF, rng.randrange(65536)])))
        if k < 0.5:
            return ('msg', PGN['DM14'], other, dm14(rng.randint(1, 9), 1, rng.choice([1, 2, 4]), rng.randrange(1 << 24), 0xFFFF))
        if k < 0.75:
            return ('msg', PGN['DM14'], client, dm14(rng.randint(1, 9), 1, rng.choice([1, 2]), rng.randrange(1 << 24), 0xFFFF))
        if k < 0.9:
            return ('msg', PGN['DM16'], other, dm16([rng.randrange(256) for _ in range(rng.randint(0, 9))]))
        return ('msg', rng.choice([PGN['DM15'], 0xFEF1, 60416]), rng.choice([client, other]), [rng.randrange(256) for _ in range(8)])

    def junk():
        n = rng.choice([0, 1, 2, 3, 5, 6, 7, 8, 9, 12])
        return ('msg', rng.choice([PGN['DM14'], PGN['DM14'], PGN['DM16'], PGN['DM15']]), rng.choice([client, other]), [rng.randrange(256) for _ in range(n)])

    for _ in range(rng.randint(1, 4)):
        cmd = rng.choice([1, 1, 2, 2, 0, 3])
        addr = rng.randrange(1 << 32)
        count = rng.randint(1, 12)
        direct = rng.randint(0, 1)
        length = 8 if rng.random() < 0.9 else rng.choice([6, 7, 9, 10])
        cur.update(addr=addr, count=count, direct=direct)
        steps = [('msg', PGN['DM14'], client, dm14(count, direct, cmd, addr, 0xFFFF, length))]
        if seedsec:
            sd = seed_iter.pop(0) if seed_iter else 0xBEEF
            key = key_fn(sd) if rng.random() < 0.8 else rng.randrange(65536)
            steps.append(('msg', PGN['DM14'], client, dm14(count, direct, cmd, addr, key, length)))
        # the application answers
        if rng.random() < 0.85:
            proceed = rng.random() < 0.8
            if cmd == 1:
                data = [rng.randrange(256) for _ in range(rng.choice([count, count, 1, 7, 8, 9, 20]))]
                steps.append(('respond', proceed, data, rng.choice([0xFFFFFF, 0x100, 0x1003, 5]), rng.choice([0xFF, 7, 3]), []))
                if len(data) > 7 and rng.random() < 0.8:
                    # end-of-message acknowledgement of the multi-packet DM16 arrives as a DM16-PGN notification
                    steps.append(('msg', PGN['DM16'], client, [19, len(data) + 1, 0, (len(data) + 7) // 7, 0xFF, 0, 0xD7, 0]))
            else:
                during = []
                if rng.random() < 0.8:
                    during.append((PGN['DM16'], client, dm16([rng.randrange(256) for _ in range(rng.choice([count, 1, 7, 8, 12]))])))
                if rng.random() < 0.2:
                    during.insert(rng.randint(0, len(during)), tuple(intruder()[1:]))
                steps.append(('respond', proceed, [], rng.choice([0xFFFFFF, 0x100, 2]), rng.choice([0xFF, 7]), during))
            if rng.random() < 0.15:
                # the requester's closing DM14 arrives while the serving node is itself querying a third node, after another
                # node's request has been turned away meanwhile: the running transaction is closed all the same
                steps.append(('query', rng.random() < 0.5, [tuple(intruder()[1:]) for _ in range(rng.randint(0, 2))]
                              + [(PGN['DM14'], client, dm14(count, direct, 4, addr, 0xFFFF, length))]))
            elif rng.random() < 0.85:
                steps.append(('msg', PGN['DM14'], client, dm14(count, direct, 4, addr, 0xFFFF, length)))
        if rng.random() < 0.1:
            steps.append(('reset',))
        # intruders / junk anywhere
        k = 0
        while k <= len(steps):
            r = rng.random()
            if r < 0.18:
                steps.insert(k, intruder())
                k += 1
            elif malformed and r < 0.3:
                steps.insert(k, junk())
                k += 1
            k += 1
        ops += steps
    if rng.random() < 0.15:
        ops.append(('respond', True, [1, 2, 3], 0xFFFFFF, 0xFF, []))
    # the node's own read()/write() with requests of other nodes arriving meanwhile, at any point of the history
    for _ in range(rng.choice([0, 0, 1, 2])):
        du = [tuple(intruder()[1:]) for _ in range(rng.randint(0, 3))]
        ops.insert(rng.randint(0, len(ops)), ('query', rng.random() < 0.5, du))
    return dict(seedsec=seedsec, hasproceed=hasproceed, seeds=seeds, answers=answers, ops=ops)


# ---------------------------------------------------------------------------------------------- Coq side
def zl(l):
    return '[' + '; '.join(str(int(x)) for x in l) + ']'


def op_coq(op):
    if op[0] == 'msg':
        return '(OpMsg %d %d %s)' % (op[1], op[2], zl(op[3]))
    if op[0] == 'respond':
        du = '[' + '; '.join('(%d, %d, %s)' % (p, s, zl(d)) for (p, s, d) in op[5]) + ']'
        return '(OpRespond %s %s %d %d %s)' % ('true' if op[1] else 'false', zl(op[2]), op[3], op[4], du)
    if op[0] == 'query':
        du = '[' + '; '.join('(%d, %d, %s)' % (p, s, zl(d)) for (p, s, d) in op[2]) + ']'
        return '(OpQuery %s %s)' % ('true' if op[1] else 'false', du)
    return 'OpReset'


def case_coq(case, expected):
    return '(%s, %s, %s, [%s], [%s], [%s])' % (
        'true' if case['seedsec'] else 'false', 'true' if case['hasproceed'] else 'false', zl(case['seeds']),
        '; '.join('true' if a else 'false' for a in case['answers']), '; '.join(op_coq(o) for o in case['ops']),
        '; '.join(zl(r) for r in expected))


HEADER = ('From J1939 Require Import Base Dm14Srv Dm14Replay.\nFrom Coq Require Import ZArith List.\nImport ListNotations.\nOpen Scope Z_scope.\n')


def correspond(cases, work, C, tag='dm14srv'):
    """returns (n_ops, mismatching case indices, errors, impl records)"""
    impl = [run_impl(c) for c in cases]
    files = []
    per = 60
    for k in range(0, len(cases), per):
        body = 'Definition cases := [\n' + ';\n'.join(case_coq(c, e) for c, e in zip(cases[k:k + per], impl[k:k + per])) + '].\n'
        body += 'Eval vm_compute in (srv_mismatches cases).\n'
        files.append(('%s_%d' % (tag, k), HEADER + body))
    res = C.run_many_cases(work, files, timeout=300, par=8)
    mism, errors = [], []
    for name, _ in files:
        rc, out = res[name]
        k = int(name.rsplit('_', 1)[1])
        if rc != 0:
            errors.append((name, out[-600:]))
            continue
        idx = C.parse_nat_list(out)
        if len(idx) != 1:
            errors.append((name, 'unparsable: ' + out[-300:]))
            continue
        mism += [k + i for i in idx[0]]
    return sum(len(c['ops']) for c in cases), mism, errors, impl


def model_records(case, work, C):
    """the model's per-op records of one case (for locating the first difference)"""
    body = 'Eval vm_compute in (srv_records %s).\n' % case_coq(case, [])
    res = C.run_many_cases(work, [('dm14srv_full', HEADER + body)], timeout=120, par=1)
    rc, out = res['dm14srv_full']
    return (C.parse_list_list(out) if rc == 0 else None), out


def stage(out, tier, rng, work, C, n_quick=150, n_thorough=2500):
    """run the operation-sequence correspondence; a disagreement is a broken tie (the property oracles then search)"""
    n = n_quick if tier == 'quick' else n_thorough
    cases = [gen_case(rng, malformed=(i % 3 == 2)) for i in range(n)]
    total, mism, errors, impl = correspond(cases, work, C)
    out.traces_validated = (out.traces_validated or 0) + total
    out.extra['dm14_server_op_sequences'] = dict(cases=n, operations=total, malformed_stream=n // 3,
                                                 exceptions_in_impl=sum(1 for recs in impl for r in recs if r[1 + r[0]] == 2))
    for e in errors:
        out.broken.append('DM14 server correspondence %s did not evaluate: %s' % (e[0], e[1][-200:]))
    for k in mism[:3]:
        detail = ''
        recs, _ = model_records(cases[k], work, C)
        if recs is not None:
            for i, (a, b) in enumerate(zip(impl[k], recs)):
                if list(a) != list(b):
                    detail = ' first difference at operation %d %s: impl %s model %s' % (i, str(cases[k]['ops'][i])[:120], a[:24], b[:24])
                    break
        out.broken.append('DM14 server model and implementation differ on an operation sequence (config seedsec=%s proceed=%s, %d ops)%s'
                          % (cases[k]['seedsec'], cases[k]['hasproceed'], len(cases[k]['ops']), detail))
        out.extra.setdefault('dm14_server_disagreements', []).append(dict(case=cases[k], impl=impl[k]))
    # the theorems' statements evaluated on the implementation's own records: a failing case is a concrete replay
    found = {}
    for case, recs in zip(cases, impl):
        for prop, kind, i, detail in check_theorems(case, recs, initial_summary(case)):
            if (prop, kind) not in found:
                found[(prop, kind)] = (i, detail, case)
    for (prop, kind), (i, detail, case) in found.items():
        if prop == out.prop:
            out.violation('%s at operation %d of an operation sequence on the real DM14Server/MemoryAccess: %s' % (kind, i, json.dumps(detail, default=str)[:300]),
                          dict(kind=kind), dict(broke='oracle', dm14_server_case=case, operation=i, violation=detail))
    return mism


# ---------------------------------------------------------------------------------------------- the theorems, evaluated on the implementation
def split_record(rec):
    n = rec[0]
    outs_flat = rec[1:1 + n]
    tag = rec[1 + n]
    if tag == 0:
        ret, k = ('none',), 2 + n
    elif tag == 2:
        ret, k = ('raise', rec[2 + n]), 3 + n
    else:
        ln = rec[2 + n]
        ret, k = (('data', None), 3 + n) if ln == NONE else (('data', rec[3 + n:3 + n + ln]), 3 + n + ln)
    outs, i = [], 0
    while i < len(outs_flat):
        t = outs_flat[i]
        if t == 1:
            ln = outs_flat[i + 4]
            outs.append(('send', outs_flat[i + 1], outs_flat[i + 2], outs_flat[i + 3], outs_flat[i + 5:i + 5 + ln]))
            i += 5 + ln
        elif t == 2:
            outs.append(('proceed',) + tuple(outs_flat[i + 1:i + 10]))
            i += 10
        else:
            outs.append(('notify',))
            i += 1
    return outs, ret, rec[k:]


def decode_summary(sm):
    d = dict(busy=sm[0], sa=sm[1], state=sm[2])
    i = 3
    if sm[i] == NONE:
        d['addr'] = None
        i += 1
    else:
        d['addr'] = sm[i + 1:i + 1 + sm[i]]
        i += 1 + sm[i]
    d['length'], d['proceed'] = sm[i], sm[i + 1]
    i += 2
    i += 1 + sm[i]          # data
    d['error'], d['edcp'], d['status'], d['direct'], d['command'], d['ptype'], d['objcnt'], d['access'], d['seed'], d['key'] = sm[i:i + 10]
    i += 10
    nq = sm[i]
    i += 1
    for _ in range(nq):
        i += 1 + (sm[i] if sm[i] != NONE else 0)
    d['a_state'] = sm[i]
    return d


def running(d):
    return d['sa'] != NONE and d['busy'] == 0 and ((d['a_state'] == 2 and d['state'] == 3) or d['a_state'] == 3 or (d['a_state'] == 1 and d['state'] != 1))


def check_theorems(case, recs, init_summary):
    """C19_intruder_does_not_disturb / C19_other_pointer_not_served / C18_key_gate_every_state evaluated on what the REAL objects did.
    Returns violations [(kind, op index, detail)]"""
    v = []
    pre = init_summary
    for i, (op, rec) in enumerate(zip(case['ops'], recs)):
        outs, ret, post = split_record(rec)
        dpre = decode_summary(pre)
        if op[0] == 'msg' and running(dpre):
            pgn, sa, data = op[1], op[2], op[3]
            other_sa = sa != dpre['sa']
            other_ptr = (pgn == PGN['DM14'] and sa == dpre['sa'] and dpre['addr'] is not None
                         and list(dpre['addr']) != list(data[2:max(0, dpre['length'] - 2)]) and dpre['length'] - 2 >= 0)
            if other_sa or other_ptr:
                bad_out = [o for o in outs if not (o[0] == 'send' and o[1] == 216 and o[2] == (sa & 0xFF))]
                if list(post) != list(pre) or bad_out:
                    v.append(('C19', 'intruder-changes-the-running-transaction' if list(post) != list(pre) else 'intruder-causes-other-output', i,
                              dict(op=op, requester=dpre['sa'], state_before=dpre, outputs=outs[:3])))
        if op[0] == 'query' and dpre['a_state'] == 1 and dpre['state'] == 6 and dpre['sa'] != NONE and dpre['busy'] == 0 and dpre['addr'] is not None:
            # waiting for the requester's closing DM14: when it arrives during the node's own query (whatever other nodes asked
            # meanwhile) the transaction is closed
            closing = [m for m in op[2] if m[0] == PGN['DM14'] and m[1] == dpre['sa'] and len(m[2]) == dpre['length']
                       and list(m[2][2:dpre['length'] - 2]) == list(dpre['addr'])]
            dpost = decode_summary(post)
            if closing and closing[-1] == tuple(op[2][-1]) and (dpost['state'] != 1 or dpost['sa'] != NONE):
                v.append(('C19', 'closing-dm14-of-the-running-transaction-refused-after-another-node-asked-during-the-own-query', i,
                          dict(op=op, state_after=dpost['state'], requester_after=dpost['sa'])))
        if op[0] == 'query' and dpre['a_state'] == 1:
            if any(o[0] in ('proceed', 'notify') for o in outs):
                v.append(('C19', 'request-passed-to-the-application-while-the-node-is-itself-querying', i, dict(op=op, outputs=outs[:3])))
        if case['seedsec'] and op[0] == 'msg':
            for o in outs:
                if o[0] == 'proceed' and key_fn(o[9]) != o[6]:
                    v.append(('C18', 'application-asked-with-wrong-key', i, dict(op=op, key=o[6], seed=o[9])))
            if ('notify',) in outs and not any(o[0] == 'proceed' for o in outs) and case['hasproceed']:
                v.append(('C18', 'application-notified-without-being-asked', i, dict(op=op)))
        pre = post
    return v


def initial_summary(case):
    sim = vts.Sim(jitters=[1])
    try:
        return Rig(sim, case['seedsec'], case['hasproceed'], case['seeds'], case['answers']).summary()
    finally:
        sim.close()

"""C19 — a second DM14 requester never disturbs or joins a running transaction."""
import json
import common as C
import dm14h, p_c17, refpeer as R

FILES = p_c17.FILES
runner = dm14h.runner
ITEMS = ['item_dm14_guard', 'item_dm15', 'item_dm14_fields']


def shapes(rng):
    for seedkey in (False, True):
        for kind, n in (('read', 1), ('read', 7), ('read', 12), ('write', 1), ('write', 4), ('write', 10)):
            if kind == 'read':
                op = dict(kind='read', count=n, size=1, signed=False, raw=True, server_data=[(37 * i + 5) % 256 for i in range(n)], timeout=3, gap=0.5, address=0x92000003, direct=1)
            else:
                op = dict(kind='write', values=[(91 * i + 3) % 256 for i in range(n)], size=1, timeout=3, gap=0.5, address=0x92000003, direct=1)
            yield dict(kind='dm14', ops=[op], seedkey=seedkey, seeds=[0xA55A, 0x1234], lat=[500], horizon=9_000_000, max_cmdt=8)


def intruder_frame(mode, sc):
    op = sc['ops'][0]
    if mode == 'other-sa':
        # a complete, plausible DM14 read request from another node, same or another pointer
        return dict(sa=dm14h.X_ADDR, data=[2, (1 << 4) + (1 << 1) + 1, 0x03, 0x00, 0x00, 0x92, 0x07, 0x00])
    ptr = [0x44, 0x33, 0x22, 0x11]
    return dict(sa=dm14h.C_ADDR, data=[1, (1 << 4) + (1 << 1) + 1] + ptr + [0x07, 0x00])


def cases(sc):
    base = runner(sc)
    nfr = sum(1 for e in base.trace if e[2] == 'tx')
    yield sc, base, None
    for mode in ('other-sa', 'same-sa-other-pointer'):
        for after in range(1, nfr):      # the window ends when the server has received the closing DM14 (last frame)
            for times in (1, 3):
                f = intruder_frame(mode, sc)
                yield dict(sc, intruder=dict(after=after, times=times, mode=mode, **f)), None, base
    # the second requester is a real client: another controller application on the legitimate client's own ECU
    for after in range(1, nfr):
        yield dict(sc, intruder=dict(after=after, times=1, mode='second-ca', sa=dm14h.C2_ADDR, data=[])), None, base


def oracle(sc, res, base=None):
    v = p_c17.oracle({k: x for k, x in sc.items() if k != 'intruder'}, res) if sc.get('intruder', {}).get('mode') != 'same-sa-other-pointer' else []
    intr = sc.get('intruder')
    if not intr:
        return v
    # never passed to the serving application: every proceed callback belongs to the legitimate request
    op = sc['ops'][0]
    for s in res.served:
        if s['ev'] == 'proceed':
            if s['sa'] != dm14h.C_ADDR or s['address'] != op['address']:
                v.append(dict(kind='intruder-request-passed-to-application', seen=dict(sa=s['sa'], address=s['address'])))
    n_pro = sum(1 for s in res.served if s['ev'] == 'proceed')
    if n_pro > 1:
        v.append(dict(kind='application-asked-more-than-once', times=n_pro))
    # answers to the intruder: DM15 failed/busy addressed to the sender of the request
    t_in = [e[0] for e in res.trace if e[2] == 'intruder']
    for e in res.trace:
        if e[2] == 'tx' and e[1] == 1 and ((e[3] >> 16) & 0xFF) == 0xD8:
            dest = (e[3] >> 8) & 0xFF
            status = (e[6][1] >> 1) & 7
            if dest in (dm14h.X_ADDR, dm14h.C2_ADDR) and status not in (1, 5):
                v.append(dict(kind='intruder-answered-with-non-busy', data=list(e[6])))
        if e[2] == 'tx' and e[1] == 1 and ((e[3] >> 16) & 0xFF) == 0xD7 and ((e[3] >> 8) & 0xFF) in (dm14h.X_ADDR, dm14h.C2_ADDR):
            v.append(dict(kind='data-served-to-intruder', data=list(e[6])))
        if e[2] == 'tx' and e[1] == 1 and ((e[3] >> 16) & 0xFF) == 0xEC and ((e[3] >> 8) & 0xFF) in (dm14h.X_ADDR, dm14h.C2_ADDR):
            v.append(dict(kind='data-served-to-intruder', data=list(e[6])))
    if intr['mode'] == 'same-sa-other-pointer':
        # not served in place of the running request: the application was only ever told the legitimate pointer (checked above);
        # the busy reply legitimately reaches the running client, so its outcome is not compared
        return v
    return v

def run(out, tier, rng, work):
    import items, scen
    out.rule = ('an intruding DM14 (from another source address, or from the running requester with another pointer) injected after EVERY bus '
                'frame of EVERY transaction shape (read/write x with/without seed-key x 1, 7 or 4, 10..12 bytes), once and three times; oracle: the '
                'legitimate transaction has the result of the undisturbed run, the application is asked exactly once and only for the '
                'legitimate request, every answer to the intruder is a DM15 failed/busy addressed to it, no data goes to it; item-level '
                'correspondence of the guard decision; non-trivial = every injection case')
    out.assumptions = ['A1-A6 of DESIGN.md section 3', 'the serving side (DM14Server + serving half of MemoryAccess + the CA subscriber list) is modelled as a state machine (theories/Dm14Srv.v) and tied to the code by operation-sequence correspondence; the client (Dm14Query) and the transport under ca.send_pgn are not: transactions end to end are run on the real code (testing)']
    out.extra['partial'] = ['the running-transaction phases are characterised by the predicate running (server state, facade state); that every reachable state between the first DM14 and the closing DM14 satisfies it is shown by evaluation on transaction shapes (Example) and by the intruder enumeration on the real code, not by an inductive invariant']
    C.std_proof_stage(out, 'C19', FILES)
    total, mism, errors = items.run_items(ITEMS, rng, 300 if tier == 'quick' else 3000, work, C)
    out.traces_validated = total
    for e in errors:
        out.broken.append('item correspondence %s did not evaluate: %s' % (e[0], e[1][-200:]))
    for m in mism[:20]:
        out.broken.append('correspondence %s: model and implementation differ on input %s (impl %s)' % (m[0], m[1][:14], m[2][:14]))
    import dm14srv
    dm14srv.stage(out, tier, rng, work, C)
    worst = {}
    for sc0 in shapes(rng):
        for sc, res, base in cases(sc0):
            if res is None:
                res = runner(sc)
            out.add_case(scen.sc_hash(sc), True, sample=dict(op=sc['ops'][0]['kind'], seedkey=sc['seedkey'], intruder=sc.get('intruder')) if (sc.get('intruder') and len(out.samples) < 3) else None)
            for x in oracle(sc, res, base):
                if x['kind'] not in worst:
                    worst[x['kind']] = (x, sc)
    out.extra['exhaustive'] = True
    for kind, (x, sc) in worst.items():
        out.violation('%s: %s' % (kind, json.dumps(x, default=str)[:300]), dict(kind=kind), dict(broke='oracle', scenario=sc, violation=x))

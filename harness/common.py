"""common.py — driver infrastructure: paths, build, Coq evaluation, evidence, replays, findings."""
import os, sys, json, time, subprocess, hashlib, re, fcntl, shutil, random, glob

ROOT = os.path.dirname(os.path.dirname(os.path.abspath(__file__)))
REPO = os.environ.get('J1939_REPO', '/repo')
COQ = os.path.join(ROOT, 'coq')
QFLAGS = ['-Q', os.path.join(COQ, 'theories'), 'J1939', '-Q', os.path.join(COQ, 'proofs'), 'J1939P',
          '-Q', os.path.join(COQ, 'props'), 'J1939Props']
GUARD = 'J1939_VERIF'

TRUSTED_BASE = [
    'Coq 8.16.1 kernel incl. its VM (vm_compute); no native_compute',
    'tools/py2coq.py (translator of expression-level code; item list in theories/gen/translate_report.json)',
    'harness/vts.py virtual-time execution of the real code (assumptions A1-A6 of DESIGN.md section 3)',
    'correspondence by generated cases files evaluated with vm_compute (differential testing, not proof)',
    'hand-written stateful models theories/*.v are tied to the code by correspondence only (handler-log replay for the stacks; operation sequences for the DM14 serving and requesting sides)',
    'generated skeletons (shared-access of the job passes, pool flow of send_pgn / FD job pass) rest on the AST walkers in tools/py2coq_ext.py',
    'CPython, python-can Message/Listener, numpy split, queue/threading semantics',
]
ALLOWED_AXIOMS = ()   # the development is closed under the global context


def sh(cmd, timeout=600, cwd=None, env=None):
    try:
        p = subprocess.run(cmd, cwd=cwd, env=env, stdout=subprocess.PIPE, stderr=subprocess.STDOUT, timeout=timeout)
        return p.returncode, p.stdout.decode(errors='replace')
    except subprocess.TimeoutExpired as ex:
        return 124, (ex.stdout or b'').decode(errors='replace') + '\nTIMEOUT'


class Work:
    """per-run scratch directory under /verif/.work/<pid>, removed at exit"""
    def __init__(self):
        self.dir = os.path.join(ROOT, '.work', str(os.getpid()))
        os.makedirs(self.dir, exist_ok=True)

    def path(self, name):
        return os.path.join(self.dir, name)

    def cleanup(self):
        shutil.rmtree(self.dir, ignore_errors=True)


_build_cache = {}


def _build_stamp():
    h = hashlib.sha256()
    pats = [os.path.join(REPO, 'j1939', '**', '*.py'), os.path.join(ROOT, 'tools', 'py2coq*.py'),
            os.path.join(COQ, 'build.sh'), os.path.join(COQ, '_CoqProject.base'),
            os.path.join(COQ, 'theories', '**', '*.v'), os.path.join(COQ, 'theories', 'ref', '*.def'),
            os.path.join(COQ, 'proofs', '*.v')]
    for pat in pats:
        for f in sorted(glob.glob(pat, recursive=True)):
            h.update(f.encode() + b'\0')
            with open(f, 'rb') as fh:
                h.update(hashlib.sha256(fh.read()).digest())
            if f.endswith('.v') and 'scratch' not in f:      # the compiled file must be there and not older
                vo = f[:-2] + '.vo'
                try:
                    h.update(b'vo+' if os.path.getmtime(vo) >= os.path.getmtime(f) else b'vo-stale')
                except OSError:
                    h.update(b'vo-missing')
    h.update(REPO.encode())
    return h.hexdigest()


def ensure_build(verbose=False):
    """translate /repo -> theories/gen, then incremental make -k (theories + proofs, not props).
    Returns dict(report=[...items], failed=[.v files that did not build], log=str)."""
    if 'r' in _build_cache:
        return _build_cache['r']
    lock = open(os.path.join(ROOT, '.build.lock'), 'w')
    fcntl.flock(lock, fcntl.LOCK_EX)
    try:
        # a clean build of exactly these inputs (source tree, translator, theories, proofs, generated files, compiled
        # files present) is not repeated: the stamp covers every byte the build reads
        stamp_file = os.path.join(ROOT, '.build.stamp')
        st0 = _build_stamp()
        try:
            cached = json.load(open(stamp_file))
        except (OSError, ValueError):
            cached = None
        if cached and cached.get('stamp') == st0 and not cached['res']['failed'] and os.environ.get('J1939_FORCE_BUILD') != '1':
            _build_cache['r'] = cached['res']
            return cached['res']
        env = dict(os.environ)
        rc, out = sh(['/venv/bin/python', os.path.join(ROOT, 'tools', 'py2coq.py'), REPO,
                      os.path.join(COQ, 'theories', 'gen')], timeout=120, env=env)
        tlog = out
        if rc != 0:
            res = dict(report=[], failed=['<translator>'], log=out, translator_ok=False)
            _build_cache['r'] = res
            return res
        report = json.load(open(os.path.join(COQ, 'theories', 'gen', 'translate_report.json')))
        rc, out = sh([os.path.join(COQ, 'build.sh'), '-k'], timeout=1700)
        failed = sorted(set(re.findall(r'\*\*\* \[[^\]]*?: ([\w/\.]+)\.vo\] Error', out)))
        failed = [f + '.v' for f in failed]
        for f in failed:      # never leave a stale .vo of a file that no longer builds
            for ext in ('.vo', '.vos', '.vok', '.glob'):
                try:
                    os.remove(os.path.join(COQ, f[:-2] + ext))
                except OSError:
                    pass
        if rc != 0 and not failed:
            failed = ['<make rc=%d>' % rc]
        res = dict(report=report, failed=failed, log=tlog + out, translator_ok=True)
        _build_cache['r'] = res
        if not failed:
            with open(stamp_file + '.tmp', 'w') as f:
                json.dump(dict(stamp=_build_stamp(), res=dict(res, log='(cached build)')), f)
            os.replace(stamp_file + '.tmp', stamp_file)
        return res
    finally:
        fcntl.flock(lock, fcntl.LOCK_UN)
        lock.close()


def coqc_file(path, timeout=600):
    return sh(['timeout', str(timeout), 'coqc'] + QFLAGS + [path], timeout=timeout + 10, cwd=os.path.dirname(path))


def compile_props(prop):
    """compile props/<prop>.v, return (obligations, discharged, details, ok, log)"""
    src = os.path.join(COQ, 'props', prop + '.v')
    text = open(src).read()
    names = re.findall(r'^Print Assumptions (\w+)\.', text, re.M)
    theorems = re.findall(r'^Theorem (\w+)', text, re.M)
    lock = open(os.path.join(ROOT, '.props.%s.lock' % prop), 'w')
    fcntl.flock(lock, fcntl.LOCK_EX)
    try:
        rc, out = coqc_file(src, timeout=600)
    finally:
        fcntl.flock(lock, fcntl.LOCK_UN)
        lock.close()
    details = []
    if rc != 0:
        return len(names), 0, [dict(theorem=n, status='not-checked') for n in names], False, out, theorems
    # split the output into one block per Print Assumptions
    blocks = re.split(r'(?=Closed under the global context|Axioms:)', out)
    blocks = [b for b in blocks if b.startswith('Closed') or b.startswith('Axioms:')]
    discharged = 0
    for i, n in enumerate(names):
        b = blocks[i] if i < len(blocks) else ''
        if b.startswith('Closed'):
            details.append(dict(theorem=n, status='closed', axioms=[]))
            discharged += 1
        else:
            ax = re.findall(r'^(\S+)\s*:', b, re.M)
            ax = [a for a in ax if a != 'Axioms']
            ok = all(a in ALLOWED_AXIOMS for a in ax)
            details.append(dict(theorem=n, status='axioms-allowed' if ok else 'axioms', axioms=ax))
            if ok:
                discharged += 1
    ok = (discharged == len(names)) and set(names) == set(theorems)
    return len(names), discharged, details, ok, out, theorems


FORBIDDEN = re.compile(r'\b(Admitted|admit|Axiom|Axioms|Parameter|Parameters|Conjecture|Hypothesis|Variable|Variables|Unset Guard Checking|Unset Positivity Checking|Unset Universe Checking|bypass_check|native_compute|Admit Obligations|type-in-type|impredicative-set)\b')


def grep_gate():
    """no Admitted/admit/Axiom/Parameter/... anywhere in the development (Variable/Hypothesis allowed in Sections only)"""
    bad = []
    for p in glob.glob(os.path.join(COQ, '**', '*.v'), recursive=True):
        if '/scratch_spikes/' in p:
            continue
        depth = 0
        incomment = 0
        for ln, line in enumerate(open(p, errors='replace'), 1):
            # strip comments (nested, line-wise approximation)
            s = ''
            i = 0
            while i < len(line):
                if line.startswith('(*', i):
                    incomment += 1; i += 2; continue
                if line.startswith('*)', i) and incomment:
                    incomment -= 1; i += 2; continue
                if not incomment:
                    s += line[i]
                i += 1
            if re.match(r'\s*Section\b', s):
                depth += 1
            if re.match(r'\s*End\b', s) and depth:
                depth -= 1
            for m in FORBIDDEN.finditer(s):
                w = m.group(1)
                if w in ('Variable', 'Variables', 'Hypothesis') and depth > 0:
                    continue
                bad.append('%s:%d: %s' % (os.path.relpath(p, ROOT), ln, w))
    return bad


COQ_HEADER = 'From J1939 Require Import Base.\n'


def parse_nat_list(out, marker='= '):
    """parse the (possibly wrapped) answer of Eval vm_compute ... : list nat / list Z"""
    res = []
    for m in re.finditer(r'=\s*(\[[^\]]*\]|nil)\s*:\s*list', out.replace('\n', ' ')):
        body = m.group(1)
        if body == 'nil' or body == '[]':
            res.append([])
        else:
            res.append([int(x.replace('%nat', '').replace('%Z', '').strip().strip('()')) for x in body.strip('[]').split(';') if x.strip()])
    return res


def parse_list_list(out):
    """parse the answer of Eval vm_compute ... : list (list Z)"""
    m = re.search(r'=\s*(\[.*\]|nil)\s*:\s*list \(list Z\)', out.replace('\n', ' '), re.S)
    if not m:
        return None
    body = m.group(1)
    if body == 'nil':
        return []
    body = body.replace('%Z', '').replace(';', ',')
    try:
        return [list(x) for x in eval(body, {'__builtins__': {}})]
    except Exception:
        return None


def zl(xs):
    return '[' + ';'.join(str(int(x)) if x >= 0 else '(%d)' % x for x in xs) + ']'


def run_cases_file(work, name, imports, body, timeout=300):
    p = work.path(name + '.v')
    with open(p, 'w') as f:
        f.write(COQ_HEADER + imports + '\nOpen Scope Z_scope.\n' + body)
    rc, out = coqc_file(p, timeout=timeout)
    return rc, out


def run_many_cases(work, files, timeout=300, par=8):
    """files: list of (name, text). Runs coqc in parallel; returns {name: (rc, out)}"""
    procs = {}
    results = {}
    pending = list(files)
    running = []
    while pending or running:
        while pending and len(running) < par:
            name, text = pending.pop(0)
            p = work.path(name + '.v')
            with open(p, 'w') as f:
                f.write(text)
            pr = subprocess.Popen(['timeout', str(timeout), 'coqc'] + QFLAGS + [p], cwd=work.dir,
                                  stdout=subprocess.PIPE, stderr=subprocess.STDOUT)
            running.append((name, pr))
        name, pr = running.pop(0)
        out = pr.communicate()[0].decode(errors='replace')
        results[name] = (pr.returncode, out)
    return results


# ---------------------------------------------------------------------------------- findings
def load_findings():
    p = os.path.join(ROOT, 'known_findings.json')
    if not os.path.exists(p):
        return []
    return json.load(open(p))


def finding_matches(prop, signature_fields):
    """signature_fields: dict describing a violation (kind, site, ...). A known entry matches when
    every key of its 'signature' equals the corresponding field."""
    for f in load_findings():
        if f.get('property') != prop or f.get('kind') != 'known':
            continue
        sig = f.get('signature', {})
        if all(signature_fields.get(k) == v for k, v in sig.items()):
            return f
    return None


class Outcome:
    """collects what a check run established; decides exit status; writes evidence"""
    def __init__(self, prop, tier, seed):
        self.prop, self.tier, self.seed = prop, tier, seed
        self.t0 = time.time()
        self.obligations = 0
        self.discharged = 0
        self.theorems = []
        self.broken = []          # names of theorems / correspondences that no longer check
        self.violations = []      # dicts: signature, what, replay payload
        self.known = []
        self.evaluations = 0
        self.nontrivial = set()
        self.samples = []
        self.rule = ''
        self.traces_validated = 0
        self.extra = {}
        self.assumptions = []
        self.level = 'proof'
        self.translated = []

    def add_case(self, key, nontrivial=True, sample=None):
        self.evaluations += 1
        if nontrivial:
            self.nontrivial.add(key)
        if sample is not None and len(self.samples) < 6:
            self.samples.append(sample)

    def violation(self, what, signature, replay):
        self.violations.append(dict(what=what, signature=signature, replay=replay))

    def finish(self, work=None):
        prop = self.prop
        os.makedirs(os.path.join(ROOT, 'evidence'), exist_ok=True)
        os.makedirs(os.path.join(ROOT, 'replays'), exist_ok=True)
        lines = []
        real = []
        for v in self.violations:
            k = finding_matches(prop, v['signature'])
            if k:
                self.known.append((k, v))
            else:
                real.append(v)
        seen = set()
        for k, v in self.known:
            kid = json.dumps(k.get('signature'), sort_keys=True)
            if kid in seen:
                continue
            seen.add(kid)
            lines.append('KNOWN-FINDING: property=%s %s' % (prop, k.get('description', v['what'])))
        exit_code = 0
        if real:
            v = real[0]
            h = hashlib.sha256(json.dumps(v['replay'], sort_keys=True, default=str).encode()).hexdigest()[:12]
            rp = os.path.join(ROOT, 'replays', '%s-%s.json' % (prop, h))
            with open(rp, 'w') as f:
                rec = dict(property=prop, broke='oracle', what=v['what'], signature=v['signature'],
                           broken_obligations=self.broken)
                rec.update(v['replay'])
                json.dump(rec, f, indent=1, default=str)
            lines.append('VIOLATION property=%s replay=%s' % (prop, rp))
            exit_code = 1
        elif self.broken:
            rp = os.path.join(ROOT, 'replays', '%s-broken-%s.json' % (prop, hashlib.sha256(json.dumps(self.broken).encode()).hexdigest()[:8]))
            with open(rp, 'w') as f:
                json.dump(dict(property=prop, broke='theorem-or-correspondence', no_longer_checks=self.broken,
                               note='the search over the implementation found no failing input; the property is no longer shown to hold'), f, indent=1)
            lines.append('VIOLATION property=%s replay=%s no-failing-input-found' % (prop, rp))
            exit_code = 1
        cov = dict(obligations=self.obligations, discharged=self.discharged,
                   checker_cmd='coqc -Q coq/theories J1939 -Q coq/proofs J1939P coq/props/%s.v (after make of coq/; Print Assumptions under every theorem)' % prop,
                   trusted_base=TRUSTED_BASE,
                   theorems=self.theorems,
                   evaluations=max(self.evaluations, 1), distinct_nontrivial=len(self.nontrivial),
                   rule=self.rule, samples=self.samples or [{'note': 'no samples recorded'}],
                   traces_validated_against_impl=self.traces_validated,
                   broken=self.broken, translated_items=self.translated)
        cov.update(self.extra)
        ev = dict(property_id=prop, tier=self.tier, seed=self.seed, level=self.level, coverage=cov,
                  assumptions=self.assumptions, wall_s=round(time.time() - self.t0, 2),
                  violations=len(real) + (1 if (self.broken and not real) else 0))
        with open(os.path.join(ROOT, 'evidence', prop + '.json'), 'w') as f:
            json.dump(ev, f, indent=1, default=str)
        for l in lines:
            print(l)
        print('%s %s: obligations %d/%d, evaluations %d (distinct non-trivial %d), violations %d, known %d, %.1fs' % (
            prop, self.tier, self.discharged, self.obligations, self.evaluations, len(self.nontrivial), len(real), len(self.known), time.time() - self.t0))
        if work:
            work.cleanup()
        return exit_code


def std_proof_stage(out, prop, files_needed):
    """build, gate, compile props/<prop>.v; fill the Outcome. files_needed: .v files (relative to coq/) whose
    failure breaks this property's obligations."""
    b = ensure_build()
    out.translated = [dict(name=r['name'], status=r['status'], src_hash=r['hash']) for r in b['report']]
    gate = grep_gate()
    if gate:
        out.broken.append('grep-gate: ' + '; '.join(gate[:5]))
    failed = [f for f in b['failed'] if f in files_needed or f.startswith('<')]
    n, d, details, ok, log, theorems = compile_props(prop)
    out.obligations, out.discharged, out.theorems = n, d, details
    if failed:
        out.broken.append('build failed: ' + ', '.join(failed))
    if not ok:
        for t in details:
            if t['status'] not in ('closed', 'axioms-allowed'):
                out.broken.append('theorem %s: %s' % (t['theorem'], t['status']))
        if set(theorems) != set(t['theorem'] for t in details):
            out.broken.append('props/%s.v: a Theorem without Print Assumptions' % prop)
        m = re.search(r'File "([^"]+)", line (\d+).*?\n(Error:.*?)(?:\n\n|\Z)', log, re.S)
        if m:
            out.extra['coq_error'] = '%s:%s %s' % (os.path.basename(m.group(1)), m.group(2), m.group(3)[:400])
    fb = [r['name'] for r in b['report'] if r['status'] != 'translated']
    out.extra['translator_fallback_items'] = fb
    return b

"""C13 — a CA sends application data only from an address it holds."""
import common as C
import sprop, gen_ca
import refpeer as R

FILES = ['theories/Base.v', 'theories/gen/Codec.v', 'theories/gen/Tp21Gen.v', 'theories/gen/CaGen.v', 'theories/CodecGlue.v',
         'theories/Model21.v', 'theories/Replay21.v', 'proofs/CodecProofs.v', 'proofs/Flat.v', 'proofs/Tp21Resp.v',
         'proofs/ClaimProofs.v', 'proofs/CaProofs.v',
         'theories/SkelDefs.v', 'theories/FlowDefs.v', 'theories/gen/SkelGen.v', 'proofs/FlowProofs.v', 'proofs/OrderProofs.v']
NORMAL = 2


def gen_move(rng):
    """the CA under test is operational on its preferred address, uses it, loses it to a lower NAME, moves to the next
    address and goes on sending the same messages: each frame must carry the address held at that moment"""
    pref = rng.choice(gen_ca.VETO[:100])
    nameX = gen_ca.mk_name(rng, True) | (1 << 40)
    nameY = (nameX - (1 << 40) + rng.randint(0, 1000)) & ~(1 << 48)
    stacks = [dict(dll='j1939-21', max_cmdt=3, subs=[], cas=[dict(name=nameX, addr=pref, bypass=False, subs=[1], req=[2])]),
              dict(dll='j1939-21', max_cmdt=3, subs=[dict(cid=20, filt=None)], cas=[dict(name=nameY, addr=pref, bypass=False, subs=[21], req=[22])])]
    script = [dict(t=1000, s=0, op='ca_start', ca=0, delay=0), dict(t=1_500_000, s=1, op='ca_start', ca=0, delay=0)]
    msgs = [(6, 0xFECA), (3, 0xD055), (6, 0x1FFFF)]
    for t in (400_000, 700_000, 1_100_000, 2_200_000, 2_700_000, 3_400_000):
        prio, pgn = rng.choice(msgs[:2])
        script.append(dict(t=t + rng.randint(0, 50), s=0, op='ca_send_message', ca=0, a=[prio, pgn, dict(seed=rng.getrandbits(20), len=8)]))
        if rng.random() < 0.5:
            script.append(dict(t=t + 100 + rng.randint(0, 50), s=0, op='ca_send', ca=0, a=[0, 0xFE, 0xF6, 6, dict(seed=rng.getrandbits(20), len=8)]))
    script.sort(key=lambda e: e['t'])
    return dict(stacks=stacks, lat=[rng.choice([0, 1, 5000])], jit=[1], script=script, horizon=5_000_000)


def gen_fd_two(rng):
    """two controller applications on ONE FD ECU send short groups with a time limit to the same destination within one
    collection window: whatever the packing, each group leaves in a frame that carries the address of the CA that sent it"""
    a1, a2 = rng.sample(range(0x20, 0x60), 2)
    dest = rng.choice([0x90, 255])
    stacks = [dict(dll='j1939-22', max_cmdt=3, subs=[], cas=[dict(name=0x100 + i, addr=a, bypass=True, subs=[1 + i], req=[]) for i, a in enumerate((a1, a2))]),
              dict(dll='j1939-22', max_cmdt=3, subs=[dict(cid=20, filt=0x90), dict(cid=21, filt=None)], cas=[])]
    script = []
    t = 1000
    groups = []
    for i in range(rng.randint(2, 7)):
        t += rng.choice([0, 0, 100, 3000, 30000, 120000])
        ca = rng.choice([0, 1])
        pf, ps = (rng.randrange(0x50, 0xE0), dest) if dest != 255 else (rng.randint(240, 255), rng.randrange(256))
        pl = dict(seed=rng.getrandbits(24), len=rng.choice([3, 8, 20, 40]))
        tl = rng.choice([20000, 50000, 100000])
        script.append(dict(t=t, s=0, op='ca_send', ca=ca, a=[0, pf, ps, 6, pl, tl]))
        groups.append(dict(ca=ca, payload=pl))
    return dict(stacks=stacks, lat=[1], jit=[1], script=script, horizon=t + 1_000_000, oracle_only=True,
                meta=dict(kind='fd-two-cas', addrs=[a1, a2], groups=groups))


def oracle_fd_two(sc, res):
    import p_c11
    from scen import payload
    v = []
    m = sc['meta']
    owner = {tuple(payload(g['payload'])): m['addrs'][g['ca']] for g in m['groups']}
    for e in res.trace:
        if e[2] == 'tx' and e[1] == 0 and ((e[3] >> 16) & 0xFF) == 0x25:
            sa = e[3] & 0xFF
            for g in (p_c11.decode_mpg(e[6]) or []):
                want = owner.get(tuple(g[3]))
                if want is not None and want != sa:
                    v.append(dict(kind='group-sent-under-another-applications-address', frame_sa=sa, sender_address=want, length=len(g[3])))
                    return v
    return v


def gen_two_contests(rng):
    """two contests for the address of the CA under test, one after the other, from DIFFERENT nodes: first a claim with a higher
    NAME (fended off), later a real CA with a lower NAME — the second contest is decided by the second contender's NAME, and
    what the CA sends afterwards comes from the address it then holds (or is refused)"""
    aac = rng.random() < 0.5
    pref = rng.choice(gen_ca.VETO[:100])
    nameX = gen_ca.mk_name(rng, aac) | (1 << 40)
    weak = ((nameX + (1 << 41)) & ~(1 << 48)) & ((1 << 64) - 1)
    strong = (nameX - (1 << 40) + rng.randint(0, 1000)) & ~(1 << 48)
    bypass = rng.random() < 0.3
    stacks = [dict(dll='j1939-21', max_cmdt=3, subs=[], cas=[dict(name=nameX, addr=pref, bypass=bypass, subs=[1], req=[2])]),
              dict(dll='j1939-21', max_cmdt=3, subs=[dict(cid=20, filt=None)], cas=[dict(name=strong, addr=pref, bypass=False, subs=[21], req=[22])])]
    script = [dict(t=1000, s=0, op='ca_start', ca=0, delay=0), dict(t=rng.choice([1_200_000, 1_500_000]), s=1, op='ca_start', ca=0, delay=0)]
    t_weak = rng.choice([100_000, 600_000])            # inside the veto wait of the CA under test, or when it is operational
    inject = [dict(t=t_weak, to=0, id=R.ref_can_id(6, 0xEEFF, pref), data=list(weak.to_bytes(8, 'little')), via='listener')]
    for t in (400_000, 900_000, 2_200_000, 2_700_000, 3_400_000):
        script.append(dict(t=t + rng.randint(0, 50), s=0, op='ca_send_message', ca=0, a=[6, 0xFECA, dict(seed=rng.getrandbits(20), len=8)]))
        if rng.random() < 0.5:
            script.append(dict(t=t + 100, s=0, op='ca_request', ca=0, a=[0, 0xFECA, 255]))
    script.sort(key=lambda e: e['t'])
    return dict(stacks=stacks, lat=[rng.choice([0, 1, 5000])], jit=[1], script=script, inject=inject, horizon=5_000_000)


def gen(rng, k):
    if k % 12 == 7:
        return gen_fd_two(rng)
    if k % 12 == 3:
        return gen_two_contests(rng)
    if k % 6 == 5:
        return gen_move(rng)
    aac = rng.random() < 0.5
    pref = rng.choice(gen_ca.VETO if rng.random() < 0.6 else gen_ca.IMMEDIATE)
    if aac and pref >= 252:
        # room left below 254 for every possible loss (two at most here), as in C04's quantifier: an arbitrary-address-capable
        # CA that runs off the end of the range claims 254, 255, ... (the library's own TODO "check the address range")
        pref = 248 + (pref - 252)
    if aac and rng.random() < 0.15:
        pref = rng.choice([246, 247])          # the end of the dynamic range: the next address after a loss is 247 / 248
    bypass = rng.random() < 0.15
    nameX = gen_ca.mk_name(rng, aac) | (1 << 40)
    # "started with claiming bypassed" without a preferred address: there is no address to hold, every send must raise
    no_addr = bypass and rng.random() < 0.4
    stacks = [dict(dll='j1939-21', max_cmdt=3, subs=[], cas=[dict(name=nameX, addr=(None if no_addr else pref), bypass=bypass, subs=[1], req=[2])])]
    script = []
    # (a CA created with claiming bypassed may be started all the same — later, when contenders have already been heard)
    started = ((not bypass) and rng.random() < 0.85) or (bypass and not no_addr and rng.random() < 0.5)
    t_start = rng.choice([1000, 300000])
    delay = rng.choice([0, 1000, 250000, 600000])
    if started:
        script.append(dict(t=t_start, s=0, op='ca_start', ca=0, delay=delay))
    comp = rng.random() < 0.6
    if comp:
        lower = rng.random() < 0.7
        nameY = (nameX - (1 << 40) + rng.randint(0, 1000)) if lower else (nameX + (1 << 41))
        nameY &= ~(1 << 48)
        stacks.append(dict(dll='j1939-21', max_cmdt=3, subs=[dict(cid=20, filt=None)],
                           cas=[dict(name=nameY, addr=pref, bypass=False, subs=[21], req=[22])]))
        script.append(dict(t=rng.choice([500, 200000, 700000, 1500000]), s=1, op='ca_start', ca=0, delay=rng.choice([0, 100000])))
    if comp and aac and pref + 1 < 247 and rng.random() < 0.5:
        # a third CA with a lower NAME already sits on the address the CA under test will move to when it loses
        nameZ = (nameX - (1 << 40) - 5000 + rng.randint(0, 1000)) & ~(1 << 48)
        stacks.append(dict(dll='j1939-21', max_cmdt=3, subs=[], cas=[dict(name=nameZ, addr=pref + 1, bypass=False, subs=[31], req=[32])]))
        script.append(dict(t=rng.choice([400, 600]), s=2, op='ca_start', ca=0, delay=0))
    # send attempts spread over the whole history
    for _ in range(rng.randint(3, 10)):
        t = rng.choice([200, 900, t_start + 10, t_start + delay + 5, t_start + delay + 100000, t_start + delay + 251000,
                        900000, 1400000, 1800000, 2600000, 3300000, 3900000]) + rng.randint(0, 50)
        r = rng.random()
        if r < 0.4:
            pf = rng.choice([0xEE, 0xD0, 0xFE, 0x10, 0xEA])
            ps = 255 if pf == 0xEE else rng.choice([255, 0x30, 0x55])
            n = rng.choice([0, 3, 8, 8, 8, 20])
            if pf in (0xEE, 0xEA):
                n = 8 if pf == 0xEE else 3
            script.append(dict(t=t, s=0, op='ca_send', ca=0, a=[rng.choice([0, 1]), pf, ps, rng.randint(0, 7), dict(seed=rng.getrandbits(20), len=n)]))
        elif r < 0.65:
            script.append(dict(t=t, s=0, op='ca_send_message', ca=0, a=[rng.choice([6, 6, 3, rng.randint(0, 7)]), rng.choice([0xFECA, 0xFECA, 0xEEFF, 0xD055, 0x1FFFF]), dict(seed=rng.getrandbits(20), len=rng.randint(0, 8))]))
        else:
            script.append(dict(t=t, s=0, op='ca_request', ca=0, a=[rng.choice([0, 0, 1]), rng.choice([0xEE00, 0xEE00, 0xFECA, 0x3FFFF, 0, 0x1EE00, 0x2EE00, 0x3EE00, 0xEEFF, 0xEE30]), rng.choice([255, 0x30, pref])]))
    if rng.random() < 0.3:
        # a service built on the CA: cyclic DM1 — it must neither send from an address the CA does not hold nor take the ECU's
        # background thread down when it cannot send
        script.append(dict(t=rng.choice([100, t_start + delay + 260000, 1000000]), s=0, op='dm1_start', ca=0, cycle=rng.choice([50000, 100000, 330000])))
    script.sort(key=lambda e: e['t'])
    sc = dict(stacks=stacks, lat=[rng.choice([0, 1, 5000])], jit=[1], script=script, horizon=5_000_000)
    if any(e['op'] == 'dm1_start' for e in script):
        sc['oracle_only'] = True          # the diagnostic classes are not part of the stack model
    if rng.random() < 0.35:
        # another thread of the application sends while one of the CA's address-claim / cannot-claim frames is being handed to the bus
        ops = []
        for _ in range(rng.randint(1, 2)):
            r = rng.random()
            if r < 0.4:
                ops.append(dict(op='ca_send', ca=0, a=[0, rng.choice([0xFE, 0xD0]), rng.choice([255, 0x30]), 6, dict(seed=rng.getrandbits(20), len=rng.choice([3, 8]))]))
            elif r < 0.75:
                ops.append(dict(op='ca_send_message', ca=0, a=[6, rng.choice([0xFECA, 0xD055]), dict(seed=rng.getrandbits(20), len=8)]))
            else:
                ops.append(dict(op='ca_request', ca=0, a=[0, rng.choice([0xFECA, 0xEE00]), 255]))
        sc['on_tx'] = [dict(s=0, pgn16=0xEEFF, nth=rng.choice([1, 2, 2, 3]), ops=ops)]
    return sc


def oracle(sc, res):
    if sc.get('meta', {}).get('kind') == 'fd-two-cas':
        return oracle_fd_two(sc, res)
    v = []
    for ev, r in res.returns:
        if ev['op'] not in ('ca_send', 'ca_send_message', 'ca_request') or ev['s'] != 0:
            continue
        state, addr = ev['_state']
        span = [e for e in res.trace[ev['_t0']:ev['_t1']] if e[2] == 'tx' and e[1] == 0]
        raised = isinstance(r, Exception)
        claim_req = ev['op'] == 'ca_request' and ev['a'][1] == 0xEE00
        if state != NORMAL:
            if claim_req:
                if raised:
                    v.append(dict(kind='claim-request-refused', t=ev['t']))
                for e in span:
                    if (e[3] & 0xFF) != 254 or ((e[3] >> 16) & 0xFF) != 0xEA:
                        v.append(dict(kind='frame-from-unheld-address', t=ev['t'], id=hex(e[3]), state=state))
            else:
                if not raised:
                    v.append(dict(kind='send-without-address-not-refused', op=ev['op'], t=ev['t'], state=state))
                if span:
                    v.append(dict(kind='frame-sent-without-address', op=ev['op'], t=ev['t'], id=hex(span[0][3]), state=state))
        else:
            if raised:
                v.append(dict(kind='operational-ca-refused', op=ev['op'], t=ev['t'], exc=type(r).__name__))
            for e in span:
                if (e[3] & 0xFF) != addr:
                    v.append(dict(kind='wrong-source-address', op=ev['op'], t=ev['t'], id=hex(e[3]), held=addr))
    # every frame stack 0 ever put on the bus: claim / cannot-claim / request-for-claim from 254, or SA = a held address
    announced = None          # the address of the latest address-claimed frame this node put on the bus (None: it never announced one)
    for e in res.trace:
        if e[2] == 'tx' and e[1] == 0:
            sa = e[3] & 0xFF
            pgnf = (e[3] >> 8) & 0x3FFFF
            states = e[7]
            if (pgnf & 0xFFFF) == 0xEEFF and len(e[6]) == 8 and sa in (254,) + tuple(range(0, 254)):
                # an address claim: allowed from the announced address or 254 (checked by C04); but an application
                # send_pgn(EE..) of an operational CA also lands here
                announced = sa
                continue
            if announced is not None and sa not in (254, 255) and sa != announced and ((pgnf >> 8) & 0xFF) not in (0xEB, 0xEC) and len(sc['stacks'][0]['cas']) == 1:
                # an address it holds is an address it has told the others about: the one of its latest address-claimed frame
                v.append(dict(kind='application-frame-from-an-address-it-never-announced', t=e[0], id=hex(e[3]), announced=announced))
                break
            if sa == 254 and ((pgnf >> 8) & 0xFF) == 0xEA:
                if len(e[6]) >= 3 and (e[6][0] | (e[6][1] << 8) | (e[6][2] << 16)) != 0xEE00:
                    v.append(dict(kind='request-from-the-null-address-for-another-pgn', t=e[0], id=hex(e[3]), data=list(e[6])))
                continue
            if sa in (254, 255):
                # the null / global address is never a held address: application data must not be sent from it
                v.append(dict(kind='application-frame-from-the-null-address', t=e[0], id=hex(e[3]), states=list(states)))
                continue
            if ((pgnf >> 8) & 0xFF) in (0xEB, 0xEC):
                # transport frames of a session that was opened while the CA held the address (not examined, see assumptions)
                continue
            if not any(st == NORMAL and ad == sa for (st, ad) in states):
                v.append(dict(kind='application-frame-from-unheld-address', t=e[0], id=hex(e[3]), states=list(states)))
    # holding an address means holding it alone: at the end no other CA may be operational on the address of the CA under test
    fin = [(i, res.cas[i][0]) for i in range(len(sc['stacks'])) if res.cas[i]]
    mine = fin[0][1]
    if mine[0] == NORMAL:
        for i, c in fin[1:]:
            if c[0] == NORMAL and c[1] == mine[1]:
                v.append(dict(kind='operational-on-an-address-another-ca-holds', address=mine[1], other_stack=i))
    for j, js in enumerate(res.job):
        if js != 'alive':
            v.append(dict(kind='job-thread-' + js, stack=j))
    return v


def nontrivial(sc, res):
    states = set(ev['_state'][0] for ev, r in res.returns if '_state' in ev)
    return len(states) >= 2 or any(ev.get('_state', (None,))[0] == NORMAL for ev, r in res.returns)


def run(out, tier, rng, work):
    out.rule = ('one CA under test (AAC or fixed, veto or immediate range, sometimes bypass, sometimes never started) and optionally a '
                'competitor with a lower/higher NAME on a second stack that makes it lose or keep its address; 3-10 calls of send_pgn / '
                'send_message / send_request (incl. the address-claim PGN) spread over the whole history; oracle: a call in a non-operational '
                'state raises and emits nothing (request for EE00 goes out from 254), frames of an operational CA carry its held address; '
                'handler logs replayed on the Coq model; non-trivial = calls observed in at least two claim states or in NORMAL'
                ' Includes CAs created with claiming bypassed but without an address.')
    out.assumptions = ['A1-A6 of DESIGN.md section 3', 'in-flight multi-packet sessions of a CA that loses its address mid-transfer are not examined']
    sprop.run_stateful(out, 'C13', tier, rng, work, FILES, gen, oracle, 150, 2500, nontrivial,
                       sample=lambda sc, res: dict(ca=sc['stacks'][0]['cas'][0], script=sc['script'][:5],
                                                   results=[(ev['op'], ev['_state'][0], type(r).__name__) for ev, r in res.returns if '_state' in ev][:6]))

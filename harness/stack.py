"""stack.py — one real ElectronicControlUnit under the virtual-time simulator, with observation:
  * trace   : global observable trace (Sim.trace) entries (t, stack, kind, ...)
  * oplog   : per-stack flat handler log for the correspondence with the Coq model:
                ('B', op-tuple)   a handler begins
                ('C',)            the innermost pending handler continues after an emission returned
              and `outs`: the flat integer sequence of everything the stack emitted / returned, in order.
"""
import vts
from vts import VT, Sim, us

# output record tags (must match theories/Model*.v)
T_TX, T_CB, T_RET, T_EXC, T_TIMER, T_REQ, T_SUM, T_ACK = 1, 2, 3, 4, 5, 6, 7, 8
EXC = {'IndexError': 1, 'KeyError': 2, 'RuntimeError': 3, 'ValueError': 4, 'AssertionError': 5,
       'RuntimeWarning': 6, 'Empty': 7, 'TypeError': 8, 'AttributeError': 9}


def exc_code(ex):
    return EXC.get(type(ex).__name__, 99)


class AppCb:
    """a scripted application callback (A6).  kind: 'sub' (message subscriber), 'timer', 'req'.
    script: list of actions performed when invoked, each a callable(stack); ret: value returned."""
    def __init__(self, stack, cid, kind='sub', ret=None, script=None):
        self.stack, self.cid, self.kind, self.ret, self.script = stack, cid, kind, ret, list(script or [])
        self.calls = []

    def __call__(self, *a):
        st = self.stack
        sim = st.sim
        if self.kind == 'sub':
            prio, pgn, sa, ts, data = a
            d = [int(x) for x in data]
            self.calls.append((sim.now, prio, pgn, sa, d))
            st.last_cb_pgn = pgn          # (scripts may react to one PGN only: 'if_pgn')
            sim.trace.append((sim.now, st.idx, 'cb', self.cid, prio, pgn, sa, tuple(d)))
            st.emit([T_CB, self.cid, prio, pgn, sa, len(d)] + d)
        elif self.kind == 'timer':
            self.calls.append((sim.now,))
            sim.trace.append((sim.now, st.idx, 'timer', self.cid))
            st.emit([T_TIMER, self.cid])
        elif self.kind == 'req':
            src, dst, pgn = a
            self.calls.append((sim.now, src, dst, pgn))
            sim.trace.append((sim.now, st.idx, 'req', self.cid, src, dst, pgn))
            st.emit([T_REQ, self.cid, src, dst, pgn])
        for act in self.script:
            act(st)
        st.cont()
        return self.ret

    def fire(self, *a):
        """applications usually register BOUND METHODS (a fresh object on every attribute access, equal but not identical):
        timers and subscriptions are registered and removed through this bound method"""
        return self(*a)

    def __eq__(self, o):
        return isinstance(o, AppCb) and o.cid == self.cid and o.stack is self.stack

    def __hash__(self):
        return hash(self.cid)


class Stack:
    def __init__(self, sim, dll='j1939-21', max_cmdt=1, cmdt_iv=None, bam_iv=None, on_bus=True, summary=True):
        import j1939
        self.sim = sim
        self.idx = len(sim.stacks)
        sim.stacks.append(self)
        self.on_bus = on_bus
        self.dllname = dll
        self.oplog = []
        self.outs = []
        self.depth = 0
        self.want_summary = summary
        self.job_iters_at = (None, 0)
        self.in_job = False
        self.spin = False
        self.cbs = {}
        self.cas = []
        self.ecu = j1939.ElectronicControlUnit(data_link_layer=dll, max_cmdt_packets=max_cmdt,
                                               minimum_tp_rts_cts_dt_interval=cmdt_iv,
                                               minimum_tp_bam_dt_interval=bam_iv, send_message=self._send_message)
        self.job = self.ecu._job_thread.st
        self.job.owner = self.idx
        dllobj = self.ecu.j1939_dll
        orig = dllobj.async_job_thread

        def wrapped(now, _orig=orig):
            self._job_begin(now)
            return _orig(now)
        dllobj.async_job_thread = wrapped
        self.listener = self.ecu._listeners[0]

    # ------------------------------------------------------------------ logging primitives
    def emit(self, rec):
        self.outs.extend(int(x) for x in rec)

    def begin(self, op):
        self.oplog.append(('B', op))
        self.depth += 1

    def cont(self):
        self.oplog.append(('C',))

    def end(self, ret=None, exc=None):
        if exc is not None:
            self.emit([T_EXC, exc_code(exc)])
        else:
            self.emit([T_RET, ret if ret is not None else 0])
        self.depth -= 1
        if self.depth == 0 and self.want_summary:
            self.emit([T_SUM] + self.summary())

    # ------------------------------------------------------------------ virtual bus side
    def _send_message(self, can_id, extended_id, data, fd_format=False):
        d = [int(x) for x in data]
        sim = self.sim
        self.tx_attempts = getattr(self, 'tx_attempts', 0) + 1
        if self.tx_attempts in getattr(self, 'tx_error_at', ()):
            # the driver refuses the frame (transmit buffer full, bus-off, ...): python-can raises CanError from send()
            import can
            sim.trace.append((sim.now, self.idx, 'tx-error', can_id, tuple(d)))
            raise can.CanError('transmit buffer full (injected)')
        if getattr(sim, 'tx_time', 0):
            # bus-time mode (oracle-only runs, no correspondence): handing a frame to the bus takes time, the clock the
            # calling thread reads afterwards has advanced (assumption A2 "zero-duration handlers" is lifted)
            sim.now += sim.tx_time
        sim.trace.append((sim.now, self.idx, 'tx', can_id, bool(extended_id), bool(fd_format), tuple(d),
                          tuple((ca._device_address_state, ca._device_address) for ca in self.cas)))
        self.emit([T_TX, can_id, 1 if extended_id else 0, 1 if fd_format else 0, len(d)] + d)
        sim.transmit(self.idx, (can_id, bool(extended_id), d, bool(fd_format)))
        for h in list(getattr(self, 'tx_hooks', [])):
            # application calls made by another thread of this node while the frame is being handed to the bus
            h(can_id, d)
        self.cont()

    def deliver(self, frame, via='listener'):
        import can
        can_id, ext, data, fd = frame[:4]
        flags = frame[4] if len(frame) > 4 else {}
        sim = self.sim
        if via == 'listener':
            msg = can.Message(arbitration_id=can_id, is_extended_id=ext, data=bytearray(data), is_fd=fd,
                              is_remote_frame=flags.get('remote', False), is_error_frame=flags.get('error', False),
                              timestamp=0.0, check=False)
            if flags.get('remote'):
                msg.data = bytearray(data)
            self.begin(('listener', sim.now, can_id, 1 if ext else 0, 1 if flags.get('remote') else 0,
                        1 if flags.get('error') else 0, list(data)))
            try:
                self.listener.on_message_received(msg)
            except vts.SimStall as ex:
                sim.trace.append((sim.now, self.idx, 'notify-exc', 'SimStall'))
                self.end(exc=ex)
            else:
                self.end(0)
        else:
            self.begin(('notify', sim.now, can_id, list(data)))
            try:
                self.ecu.notify(can_id, bytearray(data), 0.0)
            except (Exception, vts.SimStall) as ex:
                sim.trace.append((sim.now, self.idx, 'notify-exc', type(ex).__name__))
                self.end(exc=ex)
            else:
                self.end(0)

    # ------------------------------------------------------------------ job thread observation
    def on_time_call(self):
        pass

    def _job_begin(self, now):
        # called on the job thread at the start of each loop iteration (dll.async_job_thread wrapper)
        self._job_end_if_needed(loop=True)
        t, n = self.job_iters_at
        if t == int(now):
            n += 1
            if n > vts.K_SPIN:
                self.spin = True
                self.sim.trace.append((self.sim.now, self.idx, 'SPIN'))
                raise vts.SimSpin()
        else:
            n = 1
        self.job_iters_at = (int(now), n)
        self.in_job = True
        self.job_start = (int(now), len(self.oplog))
        self.begin(('job', int(now)))

    def _job_end_if_needed(self, loop=False, tts=None):
        # an iteration ends when the thread waits, loops again, or (another handler begins: cannot happen
        # while the job handler is pending unless nested, in which case in_job stays True)
        if self.in_job and self.sim.current is self.job and (loop or tts is not None):
            self.in_job = False
            self._job_elapsed()
            self.end(int(tts) if tts is not None else 0)

    def on_job_wait(self, timeout):
        if self.in_job:
            self.in_job = False
            self._job_elapsed()
            self.end(us(timeout) if timeout is not None else -1)

    def _job_elapsed(self):
        # an iteration that took time (a slow application callback): the log entry of the iteration records it
        now0, idx = getattr(self, 'job_start', (None, None))
        if now0 is not None and self.sim.now > now0 and idx < len(self.oplog) and self.oplog[idx][0] == 'B' and self.oplog[idx][1][0] == 'job':
            self.oplog[idx] = ('B', ('job', now0, int(self.sim.now - now0)))

    # ------------------------------------------------------------------ application side
    def cb(self, cid, kind='sub', ret=None, script=None):
        c = AppCb(self, cid, kind, ret, script)
        self.cbs[cid] = c
        return c

    def call(self, op, fn):
        """run an application call as a logged handler"""
        self.begin(op)
        try:
            r = fn()
        except (Exception, vts.SimStall) as ex:
            self.sim.trace.append((self.sim.now, self.idx, 'call-exc', op[0], type(ex).__name__, str(ex)))
            self.end(exc=ex)
            return ex
        self.end(1 if r is True else (0 if (r is False or r is None) else 2))
        return r

    def send_pgn(self, dp, pf, ps, prio, sa, data, time_limit=0, ff=3):
        now = self.sim.now
        buf = list(data)
        r = self.call(('send', now, dp, pf, ps, prio, sa, list(data), us(time_limit), ff),
                      lambda: self.ecu.send_pgn(dp, pf, ps, prio, sa, buf, time_limit, ff))
        if getattr(self.sim, 'reuse_buffers', False):
            # the application uses its list again as soon as send_pgn has returned: the message handed over is the one of the call
            buf[:] = [x ^ 0x5A for x in buf]
        self.sim.trace.append((now, self.idx, 'send_pgn', dp, pf, ps, prio, sa, len(data), r if isinstance(r, bool) else repr(r), tuple(data)))
        return r

    def add_timer(self, delta, cb, cookie=None, via_ca=None):
        periodic = 1 if (cb.ret == True) else 0          # noqa: E712 — the library re-arms on `== True`, not on truthiness
        self.sim.trace.append((self.sim.now, self.idx, 'api', 'add_timer', cb.cid, us(delta), periodic))
        # via_ca: through ControllerApplication.add_timer / remove_timer of that CA (the same registration on the same ECU)
        target = self.ecu if via_ca is None else self.cas[via_ca]
        return self.call(('add_timer', self.sim.now, us(delta), cb.cid, periodic), lambda: target.add_timer(delta, cb.fire, cookie))

    def remove_timer(self, cb, via_ca=None):
        self.sim.trace.append((self.sim.now, self.idx, 'api', 'remove_timer', cb.cid))
        target = self.ecu if via_ca is None else self.cas[via_ca]
        return self.call(('remove_timer', self.sim.now, cb.cid), lambda: target.remove_timer(cb.fire))

    def subscribe(self, cb, dev_adr=None):
        self.sim.trace.append((self.sim.now, self.idx, 'api', 'subscribe', cb.cid, dev_adr))
        return self.call(('subscribe', self.sim.now, cb.cid, -1 if dev_adr is None else dev_adr),
                         lambda: self.ecu.subscribe(cb.fire, dev_adr))

    def unsubscribe(self, cb):
        self.sim.trace.append((self.sim.now, self.idx, 'api', 'unsubscribe', cb.cid))
        return self.call(('unsubscribe', self.sim.now, cb.cid), lambda: self.ecu.unsubscribe(cb.fire))

    def add_ca(self, name_value, addr, bypass, accept_all=False, own_hook=False):
        import j1939
        cls = j1939.ControllerApplication
        if own_hook:
            # an application-defined CA class that overrides the documented hook on_request() and registers that very method
            # with subscribe_request (harness callback behind it): one callback like any other
            class HookCA(j1939.ControllerApplication):
                _hook = None

                def on_request(self, src_address, dest_address, pgn):
                    if self._hook is not None:
                        self._hook(src_address, dest_address, pgn)
            cls = HookCA
        if accept_all:
            # an application-defined CA whose acceptance filter lets everything through (the pattern of the library's own
            # test helper AcceptAllCA): what a CA without an address may do is decided by the handlers, not by this filter
            class AcceptAllCA(j1939.ControllerApplication):
                def message_acceptable(self, dest_address):
                    return True
            cls = AcceptAllCA

        def f():
            ca = cls(j1939.Name(value=name_value), addr, bypass_address_claim=bypass)
            self.ecu.add_ca(controller_application=ca)
            self.cas.append(ca)
        self.call(('add_ca', name_value, -1 if addr is None else addr, 1 if bypass else 0), f)
        return self.cas[-1]

    def ca_subscribe(self, i, cb):
        self.call(('ca_subscribe', i, cb.cid), lambda: self.cas[i].subscribe(cb.fire))

    def ca_subscribe_request(self, i, cb):
        ca = self.cas[i]
        if hasattr(type(ca), '_hook') and ca._hook is None:
            def f():
                ca._hook = cb.fire
                ca.subscribe_request(ca.on_request)
            self.call(('ca_subreq', i, cb.cid), f)
            return
        self.call(('ca_subreq', i, cb.cid), lambda: self.cas[i].subscribe_request(cb.fire))

    def ca_unsubscribe_request(self, i, cid):
        # (a fresh bound-method object of the same callback, as an application's `ca.unsubscribe_request(self.on_request)` is)
        ca = self.cas[i]
        if hasattr(type(ca), '_hook') and ca._hook is not None and ca._hook.__self__ is self.cbs[cid]:
            self.call(('ca_unsubreq', i, cid), lambda: ca.unsubscribe_request(ca.on_request))
            return
        self.call(('ca_unsubreq', i, cid), lambda: self.cas[i].unsubscribe_request(self.cbs[cid].fire))

    # ------------------------------------------------------------------ state summary
    def summary(self):
        e = self.ecu
        d = e.j1939_dll
        s = []
        if self.dllname == 'j1939-21':
            s.append(len(d._rcv_buffer))
            for k, b in d._rcv_buffer.items():
                s += [k, b['pgn'], b['message_size'], b['num_packages'], b['next_packet'], len(b['data']), int(b['deadline']), b['src_address'], b['dest_address']]
            s.append(len(d._snd_buffer))
            for k, b in d._snd_buffer.items():
                s += [k, b['pgn'], b['state'], int(b['deadline']), b['next_packet_to_send'], b.get('next_wait_on_cts', -1), b['num_packages'], b['message_size']]
        else:
            s += fd_summary(d)
        s.append(len(e._timer_events))
        for ev in e._timer_events:
            s += [int(ev['deadline']), us(ev['delta_time'])]
        s.append(len(e._subscribers))
        s.append(e._job_thread_wakeup_queue.puts)
        for ca in self.cas:
            da = ca._device_address
            s += [ca._device_address_state, -1 if da is None else da, ca._device_address_announced, 1 if ca._started else 0]
        return s

    def job_state(self):
        if self.job.state == 'dead':
            return 'dead:' + str(self.job.exc)
        return 'alive'

    def tables_empty(self, sessions_only=False):
        d = self.ecu.j1939_dll
        n = len(d._rcv_buffer) + len(d._snd_buffer)
        if self.dllname != 'j1939-21':
            if not sessions_only:
                n += len(getattr(d, '_multi_pg_snd_buffer', {}))
            # an idle FD stack has its whole originator capacity (C10_idle_stack_has_full_capacity): a flag still taken
            # with no session left is a leaked session number
            for nm in ('_J1939_22__rts_cts_session_list', '_J1939_22__bam_session_list'):
                n += sum(1 for f in getattr(d, nm, []) if not f) if not (len(d._snd_buffer)) else 0
        return n == 0


def fd_summary(d):
    s = [len(d._rcv_buffer)]
    for k, b in d._rcv_buffer.items():
        s += [hash_key(k), b['pgn'], b['session'], b['message_size'], b['num_segments'], b['next_packet'], b.get('next_cts_border', -1),
              len(b['data']), int(b['deadline']), b['src_address'], b['dest_address']]
    s.append(len(d._snd_buffer))
    for k, b in d._snd_buffer.items():
        s += [hash_key(k), b['pgn'], b['session'], b['state'], int(b['deadline']), b['next_packet_to_send'], b.get('next_wait_on_cts', -1),
              b['num_segments'], b['message_size'], len(b['data'])]
    s.append(len(d._multi_pg_snd_buffer))
    for k, b in d._multi_pg_snd_buffer.items():
        s += [hash_key(k), int(b['deadline']), b['fill_level'], len(b['cpg'])]
    s += [1 if x else 0 for x in d._J1939_22__rts_cts_session_list]
    s += [1 if x else 0 for x in d._J1939_22__bam_session_list]
    return s


def hash_key(k):
    return k if isinstance(k, int) else abs(hash(str(k))) % (2 ** 31)

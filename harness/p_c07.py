"""C07 — no sequence of received frames can stop, stall or permanently clog the stack."""
import json
import common as C
import scen, sprop, refpeer as R
from scen import payload

FILES = ['theories/Base.v', 'theories/gen/Codec.v', 'theories/gen/Tp21Gen.v', 'theories/gen/CaGen.v', 'theories/CodecGlue.v',
         'theories/Model21.v', 'theories/Replay21.v', 'proofs/CodecProofs.v', 'proofs/Flat.v', 'proofs/Tp21Resp.v', 'proofs/Tp21Orig.v', 'proofs/Tp21Seg.v', 'proofs/FilterProofs.v', 'proofs/TimeoutProofs.v', 'proofs/RobustProofs.v',
         'theories/gen/Tp22Gen.v', 'theories/Model22.v', 'theories/Replay22.v', 'proofs/MpgProofs.v', 'proofs/PoolProofs.v', 'proofs/RobustProofs22.v', 'proofs/TimeoutProofs22.v']
GAPS = [0, 0, 1000, 1000, 300000, 800000, 1300000, 3100000]
LOCAL_E, LOCAL_CA, PEER, FOREIGN = 0x20, 0x21, 0x10, 0x55
TICK = 100000


def fd_cm(ctrl, sess, size, nseg, b7, b8, pgn):
    return [(ctrl & 15) | ((sess & 15) << 4), size & 255, (size >> 8) & 255, (size >> 16) & 255, nseg & 255, (nseg >> 8) & 255, (nseg >> 16) & 255,
            b7 & 255, b8 & 255, pgn & 255, (pgn >> 8) & 255, (pgn >> 16) & 255]


def rnd_frame(rng, dll):
    da = rng.choice([LOCAL_E, LOCAL_E, LOCAL_CA, LOCAL_CA, FOREIGN, 255, 255])
    sa = rng.choice([PEER, PEER, PEER, 0x90, LOCAL_E, 254, 255])
    prio = rng.randint(0, 7)
    r = rng.random()
    fd = False
    if dll == 'j1939-21' or r < 0.15:
        kind = rng.choice(['cm', 'cm', 'cm', 'dt', 'dt', 'req', 'claim', 'pdu2', 'app'])
        if kind == 'cm':
            ctrl = rng.choice([16, 16, 17, 17, 19, 32, 32, 255, 0, 18, 20, rng.randrange(256)])
            size = rng.choice([0, 1, 8, 9, 14, 15, 20, 21, 1785, 1786, 65535, rng.randrange(65536)])
            n = rng.choice([0, 1, 2, 3, 255, (size + 6) // 7 % 256, rng.randrange(256)])
            b4 = rng.choice([0, 1, 2, 255, rng.randrange(256)])
            pgn = rng.choice([0xD000, 0xFECA, 0x1FFFF, 0, rng.getrandbits(18)])
            data = [ctrl, size & 255, size >> 8, n, b4] + R.ref_pgn3(pgn)
            if ctrl == 17:
                data[1] = rng.choice([0, 1, 2, 3, 255])
                data[2] = rng.choice([0, 1, 2, 3, 4, 255])
            cid = R.ref_can_id(prio, 0xEC00 + da, sa)
        elif kind == 'dt':
            data = [rng.choice([0, 1, 1, 2, 2, 3, 4, 255])] + [rng.randrange(256) for _ in range(7)]
            cid = R.ref_can_id(prio, 0xEB00 + da, sa)
        elif kind == 'req':
            data = R.ref_pgn3(rng.choice([0xEE00, 0xFECA, 0x3FFFF]))
            cid = R.ref_can_id(prio, 0xEA00 + da, sa)
        elif kind == 'claim':
            data = [rng.randrange(256) for _ in range(8)]
            cid = R.ref_can_id(prio, 0xEE00 + da, sa)
        elif kind == 'pdu2':
            data = [rng.randrange(256) for _ in range(8)]
            cid = R.ref_can_id(prio, 0xFE00 + rng.randrange(256), sa)
        else:
            data = [rng.randrange(256) for _ in range(8)]
            cid = R.ref_can_id(prio, 0xD000 + da, sa)
        ln = rng.choice([8, 8, 8, 8, 8, 0, 1, 2, 3, 5, 7])
        data = data[:ln]
    else:
        fd = True
        kind = rng.choice(['cm', 'cm', 'cm', 'dt', 'dt', 'mpg'])
        sess = rng.choice([0, 0, 1, 1, 2, 3, 4, 7, 8, 12, 15])
        if kind == 'cm':
            ctrl = rng.choice([0, 0, 1, 1, 2, 2, 3, 4, 4, 15, 5, 9])
            size = rng.choice([0, 1, 60, 61, 100, 120, 121, 0xFFFFFF, rng.randrange(1 << 24)])
            nseg = rng.choice([0, 1, 2, 3, (size + 59) // 60 & 0xFFFFFF, 0xFFFFFF])
            data = fd_cm(ctrl, sess, size, nseg, rng.choice([0, 1, 2, 255]), rng.choice([0, 1, 3, 255]), rng.choice([0xD000, 0xFECA, rng.getrandbits(18)]))
            cid = R.ref_can_id(prio, 0x4D00 + da, sa)
            ln = rng.choice([12, 12, 12, 12, 0, 4, 8, 11, 16, 64])
        elif kind == 'dt':
            seg = rng.choice([0, 1, 1, 2, 2, 3, 4, 0xFFFFFF])
            ln = rng.choice([64, 64, 64, 0, 3, 4, 5, 8, 12, 24, 48])
            data = [(sess << 4) | rng.choice([0, 0, 1]), seg & 255, (seg >> 8) & 255, (seg >> 16) & 255] + [rng.randrange(256) for _ in range(60)]
            cid = R.ref_can_id(prio, 0x4E00 + da, sa)
        else:
            data = []
            for _ in range(rng.randint(1, 4)):
                n = rng.choice([0, 1, 3, 8, 60, 200])
                data += [rng.choice([0x40, 0x40, 0x00, 0x20, 0x44, 0xFF]) | rng.randrange(4), rng.randrange(256), rng.randrange(256), n] + [rng.randrange(256) for _ in range(min(n, 20))]
            ln = rng.choice([8, 12, 16, 20, 24, 32, 48, 64, 3, 5])
            cid = R.ref_can_id(prio, 0x2500 + da, sa)
        data = (data + [0] * 64)[:ln]
    return cid, data, fd


def script_uses_local(script):
    """does the stack itself originate from LOCAL_E during the stream (then its listener must be there from the start: the
    end-of-message acknowledgements of those transfers are delivered to it)"""
    return any(e['op'] == 'send' and e['s'] == 0 and e['a'][4] == LOCAL_E and e['a'][1] == 0xD0 for e in script)


def gen(rng, k, dll=None):
    dll = dll or rng.choice(['j1939-21', 'j1939-22'])
    nfr = rng.choice([1, 2, 3, 5, 10, 20, 40, 60])
    t = 5000
    inject = []
    for _ in range(nfr):
        t += rng.choice(GAPS)
        cid, data, fd = rnd_frame(rng, dll)
        inject.append(dict(t=t, to=0, id=cid, data=data, fd=fd, via=rng.choice(['listener', 'listener', 'notify'])))
    t_stream_end = t
    script = []
    big = 100 if dll == 'j1939-22' else 20
    # directed family: the stack originates a connection-mode transfer and the "peer" answers with CTS frames whose
    # next-packet / count fields sit on and around the end of the message (re-request of the last packet, one past the
    # end, two past the end, zero), then falls silent
    if rng.random() < 0.3:
        ln = big + rng.randint(0, 30)
        unit = 60 if dll == 'j1939-22' else 7
        n = (ln + unit - 1) // unit
        t0 = 2000
        script.append(dict(t=t0, s=0, op='send', a=[0, 0xD0, PEER, 6, LOCAL_E, dict(seed=rng.getrandbits(20), len=ln)]))
        tt = t0 + 3000
        for _ in range(rng.randint(1, 4)):
            nxt = rng.choice([n - 1, n, n, n + 1, n + 1, n + 2, 0, 1])
            cnt = rng.choice([1, 1, 2, 255, 0])
            if dll == 'j1939-22':
                inject.append(dict(t=tt, to=0, id=R.ref_can_id(7, 0x4D00 + LOCAL_E, PEER), data=fd_cm(1, rng.choice([0, 0, 0, 1]), 0xFFFFFF, max(nxt, 0), cnt, 0, 0xD000), fd=True, via='listener'))
            else:
                inject.append(dict(t=tt, to=0, id=R.ref_can_id(7, 0xEC00 + LOCAL_E, PEER), data=[17, cnt, max(nxt, 0) & 255, 255, 255] + R.ref_pgn3(0xD000), via='listener'))
            tt += rng.choice([2000, 30000, 400000, 1300000])
        t_stream_end = max(t_stream_end, tt)
    # directed family: the "peer" ends the stack's own connection-mode transfers with a Connection Abort — right after the
    # RTS, after the first window, or twice — several transfers in a row (a session number or a table entry that is not
    # returned shows as a stack that is not idle at the end, or that refuses the follow-up transfer)
    elif rng.random() < 0.25:
        unit = 60 if dll == 'j1939-22' else 7
        tt = 2000
        for i in range(rng.choice([1, 2, 9])):
            ln = big + rng.randint(0, 30)
            script.append(dict(t=tt, s=0, op='send', a=[0, 0xD0, PEER, 6, LOCAL_E, dict(seed=rng.getrandbits(20), len=ln)]))
            ta = tt + rng.choice([1500, 3000, 20000])
            if rng.random() < 0.4:
                # one window first
                if dll == 'j1939-22':
                    inject.append(dict(t=tt + 1000, to=0, id=R.ref_can_id(7, 0x4D00 + LOCAL_E, PEER), data=fd_cm(1, i % 8, 0xFFFFFF, 1, 1, 0, 0xD000), fd=True, via='listener'))
                else:
                    inject.append(dict(t=tt + 1000, to=0, id=R.ref_can_id(7, 0xEC00 + LOCAL_E, PEER), data=[17, 1, 1, 255, 255] + R.ref_pgn3(0xD000), via='listener'))
            for rep in range(rng.choice([1, 1, 2])):
                if dll == 'j1939-22':
                    inject.append(dict(t=ta + rep * 700, to=0, id=R.ref_can_id(7, 0x4D00 + LOCAL_E, PEER),
                                       data=fd_cm(15, i % 8, 0xFFFFFF, 0xFFFFFF, 0xFF, rng.choice([1, 2, 3, 250]), 0xD000), fd=True, via='listener'))
                else:
                    inject.append(dict(t=ta + rep * 700, to=0, id=R.ref_can_id(7, 0xEC00 + LOCAL_E, PEER),
                                       data=[255, rng.choice([1, 2, 3, 250]), 255, 255, 255] + R.ref_pgn3(0xD000), via='listener'))
            tt = ta + 60000
        t_stream_end = max(t_stream_end, tt)
        inject.sort(key=lambda e: e['t'])
    # directed family: the peer's last data packet crosses the stack's own time-out abort — it is handled while the abort is
    # still being handed to the bus, completes the session and removes it under the job thread's feet
    on_tx = []
    if dll == 'j1939-21' and rng.random() < 0.12:
        size = rng.choice([9, 13, 14])
        pl = [rng.randrange(256) for _ in range(14)]
        t0 = t_stream_end + 1_400_000
        rid = R.ref_can_id(7, 0xEC00 + LOCAL_E, PEER)
        did = R.ref_can_id(7, 0xEB00 + LOCAL_E, PEER)
        inject.append(dict(t=t0, to=0, id=rid, data=[16, size, 0, 2, 255] + R.ref_pgn3(0xD300), via='listener'))
        inject.append(dict(t=t0 + 2000, to=0, id=did, data=[1] + pl[:7], via='listener'))
        on_tx.append(dict(s=0, pgn16=0xEC00 + PEER, data0=255, nth=1, deliver=[dict(id=did, data=[2] + pl[7:14])]))
        t_stream_end = t0 + 2000
    # directed family: a burst of frames that each wake the job thread arrives while that thread is inside a long application
    # callback which then registers a timer (as the address-claim callback does): the wake-ups must neither be lost nor block
    storm = False
    if rng.random() < 0.1:
        storm = True
        t0 = t_stream_end + 200000
        script.append(dict(t=t0, s=0, op='add_timer', cid=950, delta=1000, ret=False,
                           script=[dict(op='park', d=6000), dict(op='add_timer', cid=951, delta=40000, ret=False)]))
        for i in range(rng.choice([40, 70, 130])):
            sa_i = 0x60 + i % 0x40
            if dll == 'j1939-22':
                inject.append(dict(t=t0 + 1500 + 30 * i, to=0, id=R.ref_can_id(7, 0x4D00 + 255, sa_i), data=fd_cm(4, i % 4, 200, 4, 255, 0, 0xFE00 + i % 200), fd=True, via='listener'))
            else:
                inject.append(dict(t=t0 + 1500 + 30 * i, to=0, id=R.ref_can_id(7, 0xEC00 + 255, sa_i), data=[32, 20, 0, 3, 255] + R.ref_pgn3(0xFE00 + i % 200), via='listener'))
        t_stream_end = t0 + 10000
    # directed family (FD): the stack's own broadcasts are in flight while end-of-message acknowledgements for the same session
    # numbers arrive (from the global address, from a peer): a broadcast session number goes back to the broadcast pool only
    if dll == 'j1939-22' and rng.random() < 0.15:
        tt = t_stream_end + 100000
        for i in range(rng.choice([2, 5])):
            script.append(dict(t=tt, s=0, op='send', a=[0, 0xFE, 0x40 + i, 6, LOCAL_E, dict(seed=rng.getrandbits(20), len=100 + rng.randint(0, 80))]))
            for sess in range(4):
                inject.append(dict(t=tt + 4000 + 200 * sess, to=0, id=R.ref_can_id(7, 0x4D00 + LOCAL_E, rng.choice([255, PEER])),
                                   data=fd_cm(3, sess, 100, 2, 255, 255, 0xFE40 + i), fd=True, via='listener'))
            tt += 200000
        t_stream_end = max(t_stream_end, tt)
    # directed family (J1939-21): the peer announces a broadcast, sends its first packet, gives up, and announces ANOTHER one of
    # the same parameter group a moment later (within T1): the second is a message of its own, received exactly as sent
    expect_cb = []
    if dll == 'j1939-21' and rng.random() < 0.15:
        t0 = t_stream_end + 1_000_000
        first = [rng.randrange(256) for _ in range(20)]
        second = [rng.randrange(256) for _ in range(rng.choice([16, 20, 23]))]
        bid = R.ref_can_id(7, 0xEC00 + 255, PEER)
        did = R.ref_can_id(7, 0xEB00 + 255, PEER)
        inject.append(dict(t=t0, to=0, id=bid, data=R.ref_bam(20, 3, 0xFE55), via='listener'))
        inject.append(dict(t=t0 + 60000, to=0, id=did, data=[1] + first[:7], via='listener'))
        t1 = t0 + rng.choice([150000, 400000])
        n2 = (len(second) + 6) // 7
        inject.append(dict(t=t1, to=0, id=bid, data=R.ref_bam(len(second), n2, 0xFE55), via='listener'))
        for q in range(n2):
            inject.append(dict(t=t1 + 60000 * (q + 1), to=0, id=did, data=[q + 1] + (second[7 * q:7 * q + 7] + [255] * 7)[:7], via='listener'))
        expect_cb.append((0xFE55, second))
        t_stream_end = max(t_stream_end, t1 + 60000 * (n2 + 1))
    # directed family: the peer repeats its request-to-send (a retransmission: same announcement, before any data) several times
    # and then falls silent: the session it opened is supervised from the LAST frame — repetitions do not add up
    t_release = None
    if rng.random() < 0.12:
        t0 = t_stream_end + 1_400_000
        reps = rng.choice([2, 4, 6])
        gap = rng.choice([500, 20000, 200000])
        for i in range(reps):
            if dll == 'j1939-22':
                inject.append(dict(t=t0 + i * gap, to=0, id=R.ref_can_id(7, 0x4D00 + LOCAL_E, PEER), data=fd_cm(0, 5, 150, 3, 255, 0, 0xD400), fd=True, via='listener'))
            else:
                inject.append(dict(t=t0 + i * gap, to=0, id=R.ref_can_id(7, 0xEC00 + LOCAL_E, PEER), data=R.ref_rts(30, 5, 255, 0xD400), via='listener'))
        t_stream_end = t0 + (reps - 1) * gap
        t_release = t_stream_end + 1_250_000 + 350_000
    # directed family: a diagnostic service (cyclic DM1) runs on the local CA when a contender with a lower NAME takes its address
    if rng.random() < 0.12:
        script.append(dict(t=1500, s=0, op='dm1_start', ca=0, cycle=rng.choice([50000, 100000])))
        inject.append(dict(t=rng.randint(3000, max(4000, t_stream_end)), to=0, id=R.ref_can_id(6, 0xEEFF, LOCAL_CA), data=[5, 0, 0, 0, 0, 0, 0, 0], via='listener'))
    # the stack may itself be sending while the stream arrives
    for _ in range(rng.choice([0, 0, 1, 2])):
        ts = rng.randint(1000, max(2000, t_stream_end))
        if rng.random() < 0.5:
            script.append(dict(t=ts, s=0, op='send', a=[0, 0xD0, PEER, 6, LOCAL_E, dict(seed=rng.getrandbits(20), len=big + rng.randint(0, 30))]))
        else:
            script.append(dict(t=ts, s=0, op='send', a=[0, 0xFE, 0x33, 6, LOCAL_E, dict(seed=rng.getrandbits(20), len=big + rng.randint(0, 30))]))
    t_quiet = t_stream_end + 3_300_000 + 12 * 60000      # longest timeout (FD T5 = 3 s) + a BAM in progress
    t_quiet -= t_quiet % TICK
    t_quiet += TICK // 2
    script.append(dict(t=1000, s=0, op='add_timer', cid=900, delta=TICK, ret=True))
    if t_release is not None:
        script.append(dict(t=t_release, s=0, op='probe'))
    script.append(dict(t=t_quiet, s=0, op='probe'))
    script.append(dict(t=t_quiet + 10, s=1, op='on_bus'))
    p1 = dict(seed=rng.getrandbits(20), len=big + 3)
    p2 = dict(seed=rng.getrandbits(20), len=big + 11)
    script.append(dict(t=t_quiet + 1000, s=1, op='send', a=[0, 0xD1, LOCAL_E, 6, PEER, p1]))
    script.append(dict(t=t_quiet + 1000, s=0, op='send', a=[0, 0xD2, PEER, 6, LOCAL_E, p2]))
    script.sort(key=lambda e: e['t'])
    # a minimum interval between connection-mode data packets is configured in a quarter of the scenarios
    civ = rng.choice([None, None, None, 0.001, 0.005, 0.02])
    subs0 = [dict(cid=1, filt=LOCAL_E), dict(cid=2, filt=None)]
    if not script_uses_local(script) and rng.random() < 0.25:
        # the application binds its listener to the address only AFTER all that traffic has gone by
        subs0 = [dict(cid=2, filt=None)]
        script.append(dict(t=t_quiet - 2000, s=0, op='subscribe', cid=1, filt=LOCAL_E))
        script.sort(key=lambda e: e['t'])
    stacks = [dict(dll=dll, max_cmdt=rng.choice([1, 2, 8, 255]), cmdt_iv=civ, subs=subs0,
                   cas=[dict(name=77, addr=LOCAL_CA, bypass=True, subs=[3], req=[4])]),
              dict(dll=dll, max_cmdt=3, cmdt_iv=civ, subs=[dict(cid=11, filt=PEER)], cas=[], on_bus=False)]
    sc = dict(stacks=stacks, lat=[500], jit=[1], script=script, inject=inject, horizon=t_quiet + 5_000_000, dll=dll,
              t_quiet=t_quiet, follow=[p1, p2])
    if expect_cb:
        sc['expect_cb'] = expect_cb
    if on_tx:
        sc['on_tx'] = on_tx
    if storm or any(e['op'] == 'dm1_start' for e in script):
        sc['oracle_only'] = True          # frames handled while the job thread is inside a callback: outside the atomic-handler model
    sc['inject'].sort(key=lambda e: e['t'])
    return sc


def runner(sc):
    return scen.run(sc)


def oracle(sc, res):
    v = []
    for e in res.trace:
        if e[2] == 'STALL':
            # a handler of the stack looped without returning (the watchdog of the virtual-time harness broke it up)
            v.append(dict(kind='handler-did-not-return', stack=e[1], thread=e[3], t=e[0]))
            break
    if 't_quiet' not in sc:          # corpus scenarios: generic liveness checks only
        for j, js in enumerate(res.job):
            if js != 'alive':
                v.append(dict(kind='job-thread-' + js, stack=j))
        if not all(res.empty):
            v.append(dict(kind='session-left-at-end', empty=res.empty))
        return v
    tq = sc['t_quiet']
    for j, js in enumerate(res.job):
        if js != 'alive':
            v.append(dict(kind='job-thread-' + js, stack=j))
    # timers on time throughout (the background processing neither stalls nor spins)
    fires = [e[0] for e in res.trace if e[2] == 'timer' and e[1] == 0 and e[3] == 900]
    due = 1000 + TICK
    i = 0
    while due + 5 < res.end - TICK:
        ok = any(due <= f <= due + 2 for f in fires[max(0, i - 2):i + 3])
        while i < len(fires) and fires[i] < due:
            i += 1
        # (a timer that falls due while the job thread is inside a long application callback of the scenario itself — the
        # 'park' of the storm family — fires when that callback returns: the thread is not idle then)
        late = due + 2
        for ev in sc['script']:
            if ev['op'] == 'add_timer':
                for op in ev.get('script') or []:
                    if op.get('op') == 'park' and ev['t'] + ev['delta'] <= due <= ev['t'] + ev['delta'] + op['d'] + 4:
                        late = max(late, ev['t'] + ev['delta'] + op['d'] + 6)
        ok = i < len(fires) and due <= fires[i] <= late
        if not ok:
            v.append(dict(kind='timer-not-on-time', due=due, next_fire=(fires[i] if i < len(fires) else None)))
            break
        due += TICK
    for pgn, pl in sc.get('expect_cb', []):
        got = [tuple(e[7]) for e in res.trace if e[2] == 'cb' and e[1] == 0 and e[3] == 2 and e[5] == pgn]
        if got != [tuple(pl)]:
            v.append(dict(kind='well-formed-broadcast-after-an-abandoned-one-not-received-as-sent', pgn=pgn, received=[list(g)[:10] for g in got][:3],
                          lengths=[len(g) for g in got], expected_length=len(pl)))
    # every session opened by the traffic is released within the longest timeout
    pr = [e for e in res.trace if e[2] == 'probe']
    if pr and pr[0][3][0] != 0:
        v.append(dict(kind='session-not-released', at=pr[0][0]))
    # a well-formed transfer then completes, in both directions
    p1, p2 = tuple(payload(sc['follow'][0])), tuple(payload(sc['follow'][1]))
    got0 = [tuple(e[7]) for e in res.trace if e[2] == 'cb' and e[1] == 0 and e[0] > tq and e[3] in (1,) and len(e[7]) > 12]
    got1 = [tuple(e[7]) for e in res.trace if e[2] == 'cb' and e[1] == 1 and e[0] > tq and len(e[7]) > 12]
    if got0 != [p1]:
        v.append(dict(kind='follow-up-to-stack-not-delivered', n=len(got0)))
    if got1 != [p2]:
        v.append(dict(kind='follow-up-from-stack-not-delivered', n=len(got1)))
    rets = [r for ev, r in res.returns if ev['op'] == 'send' and ev['t'] > tq]
    if rets != [True, True]:
        v.append(dict(kind='follow-up-refused', rets=[str(r) for r in rets]))
    if not all(res.empty):
        v.append(dict(kind='session-left-at-end', empty=res.empty))
    return v


def nontrivial(sc, res):
    if 't_quiet' not in sc:
        return True
    return any(e[2] == 'tx' and e[1] == 0 and e[0] < sc['t_quiet'] for e in res.trace) or any(e[2] == 'notify-exc' for e in res.trace)


def run(out, tier, rng, work):
    out.rule = ('sequences of 1..60 frames over a protocol-aware alphabet (TP.CM with every control byte, TP.DT, FD.TP.CM/DT with sessions '
                '0..15, multi-PG with malformed headers, requests, claims; to local ECU / local CA / foreign / global addresses; from '
                'ordinary, own and illegal (254/255) sources; data lengths 0..8 resp. 0..64; gaps 0..3.1 s) fed to a real stack that may '
                'itself be sending; oracle: job thread alive, a 100 ms periodic timer fires on time throughout (no stall, no spin), tables '
                'empty after the longest timeout, then a well-formed transfer completes in both directions; J1939-21 logs replayed on the '
                'Coq model; non-trivial = the stream made the stack transmit or raise'
                " Directed families: CTS around the end of the message; the peer aborts 1, 2 or 9 of the stack's own transfers in a row; the peer's last data packet crosses the stack's own time-out abort (handled inside the send call). A handler that does not return is broken up by the harness watchdog and reported.")
    out.assumptions = ['A1-A6 of DESIGN.md section 3', 'J1939-22 layer by exploration/oracle only in this check']
    sprop.run_stateful(out, 'C07', tier, rng, work, FILES, gen, oracle, 160, 4000, nontrivial,
                       sample=lambda sc, res: dict(dll=sc.get('dll'), frames=[(hex(i['id']), i['data'][:4]) for i in sc.get('inject', [])[:4]],
                                                   n_frames=len(sc.get('inject', [])), exceptions=sum(1 for e in res.trace if e[2] == 'notify-exc')))

"""gen_tp.py — structured scenario generators for the transport properties (one PRNG, JSON scenarios)."""

WINDOWS = [1, 2, 3, 7, 8, 127, 254, 255]
LATS = [0, 1, 500, 5000]


def mk_stacks(rng, ns, dll='j1939-21', lat0=True):
    stacks, owned = [], []
    used = set()
    cid = [0]

    def newcid():
        cid[0] += 1
        return cid[0]
    for i in range(ns):
        sd = dict(dll=dll, max_cmdt=rng.choice(WINDOWS + [rng.randint(1, 255)]), subs=[], cas=[])
        if rng.random() < 0.15:
            sd['cmdt_iv'] = rng.choice([0.002, 0.005, 0.01])      # a minimum interval between the data packets of a window
        own = []
        for k in range(rng.choice([1, 1, 2])):
            a = rng.choice([x for x in list(range(0, 254)) if x not in used])
            if 0 not in used and rng.random() < 0.12:
                a = 0                          # address 0 is an address like any other (also for an address-bound listener)
            used.add(a)
            own.append(a)
            if rng.random() < 0.5:
                sd['cas'].append(dict(name=rng.getrandbits(63), addr=a, bypass=True, subs=[newcid()]))
            else:
                sd['subs'].append(dict(cid=newcid(), filt=a))
        if rng.random() < 0.4:
            sd['subs'].append(dict(cid=newcid(), filt=None))
        stacks.append(sd)
        owned.append(own)
    return stacks, owned


def size21(rng, big):
    r = rng.random()
    if r < 0.15:
        return rng.choice([0, 1, 7, 8])
    if r < 0.25:
        return rng.choice([9, 14, 15, 1779, 1780, 1784, 1785, 1785] if big else [9, 14, 15, 16, 21, 22])       # (1779..1785 bytes = 255 packets)
    if big and r < 0.45:
        return rng.choice([1785, 1779, rng.randint(200, 1785)])
    return rng.randint(9, 120)


def gen_transfers(rng, big=False, ns=None, dll='j1939-21', lats=None, sizefn=size21, ntr=None, reuse=0.3):
    ns = ns or rng.choice([2, 2, 3, 4])
    stacks, owned = mk_stacks(rng, ns, dll)
    lat_choices = lats or LATS
    lat = [rng.choice(lat_choices) for _ in range(rng.choice([1, 2, 3, 5]))]
    pairs = set()
    script = []
    t0 = 1000
    horizon = 0
    all_addr = [(i, a) for i, o in enumerate(owned) for a in o]
    for k in range(ntr or rng.randint(1, 6)):
        i, sa = rng.choice(all_addr)
        r = rng.random()
        if r < 0.35:
            kind = 'bam'
            da = 255
        else:
            kind = 'p2p'
            cands = [a for (j, a) in all_addr if j != i]
            da = rng.choice(cands) if (cands and rng.random() < 0.92) else rng.choice([x for x in range(254) if x != sa])
        if (sa, da) in pairs and not (kind == 'bam' and rng.random() < 0.4):
            continue            # (a second broadcast of the same source while one is under way is legitimate to ATTEMPT: refused)
        pairs.add((sa, da))
        n = sizefn(rng, big)
        if kind == 'bam':
            if rng.random() < 0.5:
                pf, ps = rng.randint(240, 255), rng.randint(0, 255)      # PDU2
            else:
                pf, ps = rng.randint(0, 239), 255                       # PDU1 to global
                while pf in (0xEA, 0xEB, 0xEC, 0xEE, 0x4D, 0x4E, 0x25):
                    pf = rng.randint(0, 239)
        else:
            pf, ps = rng.randint(0, 239), da
            while pf in (0xEA, 0xEB, 0xEC, 0xEE, 0x4D, 0x4E, 0x25):
                pf = rng.randint(0, 239)
        dp = rng.choice([0, 0, 1])
        prio = rng.randint(0, 7)
        t = t0 + rng.choice([0, 0, 1, 300, 2000, 20000])
        script.append(dict(t=t, s=i, op='send', a=[dp, pf, ps, prio, sa, dict(seed=rng.getrandbits(30), len=n)]))
        npk = (n + 6) // 7
        dur = npk * 60000 + 3_000_000 if kind == 'bam' else npk * 24000 + 3_000_000
        horizon = max(horizon, t + dur)
        if rng.random() < reuse:
            # a second message on the same pair after the first has finished
            t2 = t + dur
            n2 = sizefn(rng, False)
            script.append(dict(t=t2, s=i, op='send', a=[dp, pf, ps, prio, sa, dict(seed=rng.getrandbits(30), len=n2)]))
            horizon = max(horizon, t2 + ((n2 + 6) // 7) * 60000 + 3_000_000)
    app_timers(rng, script, ns)
    late_owner(rng, stacks, script, lat)
    script.sort(key=lambda e: e['t'])
    # (in a third of the scenarios the application uses its payload list again as soon as send_pgn has returned)
    return dict(stacks=stacks, lat=lat, jit=[rng.choice([1, 1000])], script=script, horizon=horizon + 1000, reuse_buffers=rng.random() < 0.33)



def late_owner(rng, stacks, script, lat, t0=1000):
    """in a fifth of the scenarios one address-bound listener is registered only when its stack is already running and has
    already seen (and rightly ignored) a frame for that address from another node; everything submitted later must reach it"""
    if rng.random() >= 0.25 or max(lat) > 500:
        return              # (the early frame must have arrived before the listener is bound)
    cands = [(j, s) for j, sd in enumerate(stacks) for s in sd['subs'] if s.get('filt') is not None]
    if not cands or len(stacks) < 2:
        return
    j, sub = rng.choice(cands)
    sub['late'] = t0 - 200
    i = rng.choice([x for x in range(len(stacks)) if x != j])
    script.append(dict(t=t0 - 900, s=i, op='send', a=[0, rng.choice([0x10, 0x77, 0xD5]), sub['filt'], 6, 0xFD, dict(seed=rng.getrandbits(16), len=3)]))


def app_timers(rng, script, ns):
    """in a quarter of the scenarios the applications run cyclic timers of their own on the same ECUs (0.3 .. 1 s): serving
    them must not get in the way of the transport deadlines"""
    if rng.random() < 0.25:
        for i in range(ns):
            if rng.random() < 0.6:
                script.append(dict(t=rng.choice([100, 500, 900]), s=i, op='add_timer', cid=900 + i, delta=rng.choice([300000, 800000, 1000000]), ret=True))


def size22(rng, big):
    r = rng.random()
    if r < 0.2:
        return rng.choice([61, 119, 120, 121, 179, 180, 181])
    if big and r < 0.35:
        return rng.randint(2000, 20000)
    return rng.randint(61, 700)


def gen_transfers22(rng, big=False, ntr=None, capacity=False):
    """J1939-22: 2-3 stacks, 1..8 RTS/CTS + 0..4 BAM concurrent per originator, latencies in (0, 5 ms]"""
    ns = rng.choice([2, 2, 3])
    stacks, owned = mk_stacks(rng, ns, 'j1939-22')
    lat = [rng.choice([1, 500, 5000]) for _ in range(rng.choice([1, 2, 3]))]
    script = []
    horizon = 0
    all_addr = [(i, a) for i, o in enumerate(owned) for a in o]
    n = ntr or rng.randint(1, 10)
    t0 = 1000
    for k in range(n):
        i, sa = rng.choice(all_addr)
        if rng.random() < 0.3:
            kind, da = 'bam', 255
        else:
            kind = 'p2p'
            cands = [a for (j, a) in all_addr if j != i]
            da = rng.choice(cands)
        sz = size22(rng, big)
        if kind == 'bam':
            if rng.random() < 0.5:
                pf, ps = rng.randint(240, 255), rng.randint(0, 255)
            else:
                pf, ps = rng.choice([x for x in range(0, 240) if x not in (0xEA, 0xEB, 0xEC, 0xEE, 0x4D, 0x4E, 0x25)]), 255
        else:
            pf, ps = rng.choice([x for x in range(0, 240) if x not in (0xEA, 0xEB, 0xEC, 0xEE, 0x4D, 0x4E, 0x25)]), da
        t = t0 + rng.choice([0, 0, 1, 300, 2000, 20000])
        script.append(dict(t=t, s=i, op='send', a=[rng.choice([0, 0, 1]), pf, ps, rng.randint(0, 7), sa, dict(seed=rng.getrandbits(30), len=sz)]))
        nseg = (sz + 59) // 60
        dur = nseg * 24000 + 4_500_000
        horizon = max(horizon, t + dur)
    app_timers(rng, script, ns)
    late_owner(rng, stacks, script, lat)
    script.sort(key=lambda e: e['t'])
    # (in a third of the scenarios the application uses its payload list again as soon as send_pgn has returned)
    return dict(stacks=stacks, lat=lat, jit=[rng.choice([1, 1000])], script=script, horizon=horizon + 1000, reuse_buffers=rng.random() < 0.33)

"""digest.py — wrap-around polynomial hash over a flat integer trace; the same function exists in Coq
(theories/Digest.v, primitive 63-bit integers).  selftest compares both on fixed vectors."""
MASK = 2 ** 61 - 1
MULT = 1000003
INC = 1442695040888963407
H0 = 1469598103934665603


def digest(xs, h=H0):
    for x in xs:
        h = (MULT * h + (x & MASK) + INC) & MASK
    return h


def selftest(C):
    return 0

"""digest.py — wrap-around polynomial hash over a flat integer trace; the same function exists in Coq
(theories/Digest.v, primitive 63-bit integers).  selftest compares both on fixed vectors."""
M = 2 ** 63
MULT = 6364136223846793005 % M


def digest(xs, h=1469598103934665603 % M):
    for x in xs:
        h = ((h * MULT) + (x % M) + 1442695040888963407) % M
    return h


def selftest(C):
    return 0

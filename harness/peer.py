"""peer.py — an active reference peer on the virtual bus, written from the SAE J1939-21 / -22 frame layouts
(refpeer.py), NOT from the code under test.  It plays the originator or the responder of a transfer and makes
the free choices the standard leaves to a peer (windows per CTS, holds, pacing, RTS limit) from a choice list."""
import refpeer as R


class RefPeer:
    """bus participant with address `addr`; `plan` is a dict:
       role 'responder': windows=[g1,g2,...] (cycled; each clipped to 1..min(limit, remaining)), holds=[h1,...] number of
                         zero-packet CTS before each grant (spaced hold_gap), reply_delay µs
       role 'originator': payload, dest, pgn, limit (RTS byte 5), dt_gap µs, start t
       fd=True uses the J1939-22 layouts (session number `session`)"""
    def __init__(self, sim, addr, plan):
        self.sim, self.addr, self.plan = sim, addr, plan
        self.idx = len(sim.stacks)
        sim.stacks.append(self)
        self.on_bus = True
        self.fd = plan.get('fd', False)
        self.rx = None       # responder state
        self.tx = None       # originator state
        self.delivered = []
        self.acks = []
        self.aborts = []
        self.wi = 0
        self.log = []

    # stack-like interface used by Sim
    def job_state(self): return 'alive'
    def tables_empty(self): return True
    def summary(self): return []
    outs = []
    oplog = []

    def send(self, can_id, data, fd=False):
        self.sim.trace.append((self.sim.now, self.idx, 'tx', can_id, True, fd, tuple(data), ()))
        self.sim.transmit(self.idx, (can_id, True, list(data), fd))

    def later(self, d, fn):
        if d == 0 and self.plan.get('sync'):
            fn()              # answers inside the delivery of the frame it answers (re-entrant for the sender)
            return
        self.sim.schedule(self.sim.now + d, 'call', fn)

    # ------------------------------------------------------------------ reception
    def deliver(self, frame, via='listener'):
        can_id, ext, data, fd = frame[:4]
        prio, pgn, sa = R.ref_parse_id(can_id)
        pf, ps = (pgn >> 8) & 0xFF, pgn & 0xFF
        if ps != self.addr and ps != 255:
            return
        if not self.fd:
            if pf == 0xEC and len(data) == 8:
                self.on_cm21(sa, ps, R.ref_decode_cm(data))
            elif pf == 0xEB and len(data) == 8:
                self.on_dt21(sa, ps, data)
        else:
            if pf == 0x4D and len(data) >= 12:
                self.on_cm22(sa, ps, data)
            elif pf == 0x4E and len(data) > 4:
                self.on_dt22(sa, ps, data)

    # ------------------------------------------------------------------ J1939-21 responder
    def grant(self, remaining, limit):
        w = self.plan.get('windows', [255])
        g = w[self.wi % len(w)]
        self.wi += 1
        return max(1, min(g, limit, remaining))

    def on_cm21(self, sa, da, m):
        if m['kind'] == 'RTS' and da == self.addr:
            self.rx = dict(sa=sa, size=m['size'], n=m['n'], limit=m['limit'], pgn=m['pgn'], data=[], got=0, next=1)
            self.cts_after_holds()
        elif m['kind'] == 'BAM':
            self.rx = dict(sa=sa, size=m['size'], n=m['n'], limit=255, pgn=m['pgn'], data=[], got=0, next=1, bam=True)
        elif m['kind'] == 'CTS' and self.tx and da == self.addr:
            self.on_cts21(m)
        elif m['kind'] == 'EOMA' and self.tx and da == self.addr:
            self.acks.append((self.sim.now, m))
            self.tx = None
        elif m['kind'] == 'ABORT':
            self.aborts.append((self.sim.now, m))
            self.tx = None

    def cts_after_holds(self):
        rx = self.rx
        holds = self.plan.get('holds', [0])
        h = holds[(self.wi) % len(holds)]
        delay = self.plan.get('reply_delay', 0)
        gap = self.plan.get('hold_gap', 200000)
        t = delay
        for i in range(h):
            self.later(t, lambda: self.rx and self.send(R.ref_tp_cm_id(7, rx['sa'], self.addr), R.ref_cts(0, 255, rx['pgn'])))
            t += gap

        def grant_now():
            if self.rx is not rx:
                return
            if self.plan.get('silent_after_hold') and h >= 1:
                return          # the holds are not renewed and no grant follows: the peer has fallen silent
            g = self.grant(rx['n'] - rx['got'], rx['limit'])
            rx['window_end'] = rx['got'] + g
            nxt = rx['got'] + 1
            if self.plan.get('cts_skew') and rx['got'] > 0:
                # a responder whose later CTS names another packet than the one that follows what it has got (re-requesting an
                # earlier packet, or skipping ahead): however the originator reads that, it sends no more packets than granted
                nxt = max(1, min(rx['n'], nxt + self.plan['cts_skew']))
            self.send(R.ref_tp_cm_id(7, rx['sa'], self.addr), R.ref_cts(g, nxt, rx['pgn']))
        self.later(t, grant_now)

    def on_dt21(self, sa, da, data):
        rx = self.rx
        if not rx or rx['sa'] != sa:
            return
        seq = data[0]
        if seq != rx['got'] + 1:
            self.log.append(('out-of-order', self.sim.now, seq, rx['got'] + 1))
            return
        rx['data'] += list(data[1:])
        rx['got'] += 1
        if rx['got'] == rx['n']:
            payload = rx['data'][:rx['size']]
            pad = rx['data'][rx['size']:]
            self.delivered.append(dict(t=self.sim.now, sa=sa, pgn=rx['pgn'], data=payload, pad=pad, bam=rx.get('bam', False)))
            if not rx.get('bam'):
                d = self.plan.get('reply_delay', 0)
                self.later(d, lambda: self.send(R.ref_tp_cm_id(7, sa, self.addr), R.ref_eom_ack(rx['size'], rx['n'], rx['pgn'])))
            self.rx = None
        elif not rx.get('bam') and rx['got'] == rx.get('window_end'):
            self.cts_after_holds()

    # ------------------------------------------------------------------ J1939-21 originator
    def start_originator(self):
        p = self.plan
        data = p['payload']
        n = (len(data) + 6) // 7
        self.tx = dict(dest=p['dest'], pgn=p['pgn'], data=data, n=n, pkts=R.ref_packets(data))
        if p['dest'] == 255:
            self.send(R.ref_tp_cm_id(p.get('prio', 7), 255, self.addr), R.ref_bam(len(data), n, p['pgn']))
            gap = p.get('dt_gap', 50000)
            for k in range(n):
                self.later(gap * (k + 1), lambda k=k: self.send(R.ref_tp_dt_id(255, self.addr), self.tx['pkts'][k] if self.tx else R.ref_packets(data)[k]))
            self.later(gap * (n + 1), lambda: setattr(self, 'tx', None))
        else:
            self.send(R.ref_tp_cm_id(p.get('prio', 7), p['dest'], self.addr), R.ref_rts(len(data), n, p.get('limit', 255), p['pgn']))

    def on_cts21(self, m):
        tx = self.tx
        if m['n'] == 0:
            return
        gap = self.plan.get('dt_gap', 1000)
        for i in range(m['n']):
            k = m['next'] - 1 + i
            if k < tx['n']:
                self.later(gap * (i + 1), lambda k=k: self.tx is tx and self.send(R.ref_tp_dt_id(tx['dest'], self.addr), tx['pkts'][k]))

    # ------------------------------------------------------------------ J1939-22 (FD) responder / originator
    def on_cm22(self, sa, da, d):
        ctrl, sess = d[0] & 0xF, d[0] >> 4
        size = d[1] | (d[2] << 8) | (d[3] << 16)
        nseg = d[4] | (d[5] << 8) | (d[6] << 16)
        pgn = d[9] | (d[10] << 8) | (d[11] << 16)
        if ctrl == 0 and da == self.addr:
            self.rx = dict(sa=sa, sess=sess, size=size, n=nseg, limit=d[7], pgn=pgn, data=[], got=0)
            self.cts22()
        elif ctrl == 4:
            self.rx = dict(sa=sa, sess=sess, size=size, n=nseg, limit=255, pgn=pgn, data=[], got=0, bam=True)
        elif ctrl == 2 and self.rx and self.rx['sess'] == sess and self.rx['sa'] == sa:
            rx = self.rx
            ok = rx['got'] == rx['n'] and size == rx['size'] and nseg == rx['n']
            if ok:
                self.delivered.append(dict(t=self.sim.now, sa=sa, pgn=rx['pgn'], data=rx['data'][:rx['size']], pad=rx['data'][rx['size']:], bam=rx.get('bam', False), sess=sess))
                if not rx.get('bam'):
                    self.later(self.plan.get('reply_delay', 0), lambda: self.send(R.ref_can_id(7, 0x4D00 + sa, self.addr), fd_cm(3, sess, size, nseg, 0xFF, 0xFF, pgn), True))
            self.rx = None
        elif ctrl == 1 and self.tx and da == self.addr:
            tx = self.tx
            g, nxt = d[7], nseg
            if g == 0:
                return
            gap = self.plan.get('dt_gap', 1000)
            last = 0
            for i in range(g):
                k = nxt - 1 + i
                if k < tx['n']:
                    last = gap * (i + 1)
                    self.later(last, lambda k=k: self.tx is tx and self.send(R.ref_can_id(7, 0x4E00 + tx['dest'], self.addr), fd_dt(tx['sess'], k + 1, tx['segs'][k]), True))
                    if k == tx['n'] - 1:
                        self.later(last + gap, lambda: self.tx is tx and self.send(R.ref_can_id(7, 0x4D00 + tx['dest'], self.addr), fd_cm(2, tx['sess'], len(tx['data']), tx['n'], 0, 0, tx['pgn']), True))
        elif ctrl == 3 and self.tx:
            self.acks.append((self.sim.now, dict(size=size, n=nseg, pgn=pgn, sess=sess)))
            self.tx = None
        elif ctrl == 15:
            self.aborts.append((self.sim.now, dict(reason=d[8], pgn=pgn, sess=sess)))
            self.tx = None

    def cts22(self):
        rx = self.rx

        def grant_now():
            if self.rx is not rx:
                return
            g = self.grant(rx['n'] - rx['got'], rx['limit'])
            rx['window_end'] = rx['got'] + g
            self.send(R.ref_can_id(7, 0x4D00 + rx['sa'], self.addr), fd_cm(1, rx['sess'], 0xFFFFFF, rx['got'] + 1, g, 0, rx['pgn']), True)
        self.later(self.plan.get('reply_delay', 0), grant_now)

    def on_dt22(self, sa, da, d):
        rx = self.rx
        if not rx or rx['sa'] != sa or (d[0] >> 4) != rx['sess']:
            return
        seg = d[1] | (d[2] << 8) | (d[3] << 16)
        if seg != rx['got'] + 1:
            self.log.append(('out-of-order', self.sim.now, seg, rx['got'] + 1))
            return
        rx['data'] += list(d[4:])
        rx['got'] += 1
        if not rx.get('bam') and rx['got'] == rx.get('window_end') and rx['got'] < rx['n']:
            self.cts22()

    def start_originator22(self):
        p = self.plan
        data = p['payload']
        n = (len(data) + 59) // 60
        segs = [data[60 * k: 60 * k + 60] for k in range(n)]
        sess = p.get('session', 0)
        self.tx = dict(dest=p['dest'], pgn=p['pgn'], data=data, n=n, segs=segs, sess=sess)
        if p['dest'] == 255:
            self.send(R.ref_can_id(p.get('prio', 7), 0x4D00 + 255, self.addr), fd_cm(4, sess, len(data), n, 0xFF, 0, p['pgn']), True)
            gap = p.get('dt_gap', 10000)
            for k in range(n):
                self.later(gap * (k + 1), lambda k=k: self.send(R.ref_can_id(7, 0x4E00 + 255, self.addr), fd_dt(sess, k + 1, segs[k]), True))
            self.later(gap * (n + 1), lambda: self.send(R.ref_can_id(7, 0x4D00 + 255, self.addr), fd_cm(2, sess, len(data), n, 0, 0, p['pgn']), True))
        else:
            self.send(R.ref_can_id(p.get('prio', 7), 0x4D00 + p['dest'], self.addr), fd_cm(0, sess, len(data), n, p.get('limit', 255), 0, p['pgn']), True)


FD_LEN = [0, 1, 2, 3, 4, 5, 6, 7, 8, 12, 16, 20, 24, 32, 48, 64]


def fd_pad(d, fill=255):
    n = next(x for x in FD_LEN if x >= len(d))
    return list(d) + [fill] * (n - len(d))


def fd_cm(ctrl, sess, size, nseg, b7, b8, pgn):
    return [(ctrl & 15) | ((sess & 15) << 4), size & 255, (size >> 8) & 255, (size >> 16) & 255, nseg & 255, (nseg >> 8) & 255, (nseg >> 16) & 255,
            b7 & 255, b8 & 255, pgn & 255, (pgn >> 8) & 255, (pgn >> 16) & 255]


def fd_dt(sess, seg, data):
    return fd_pad([(sess & 15) << 4, seg & 255, (seg >> 8) & 255, (seg >> 16) & 255] + list(data))

"""C16 — diagnostic trouble codes and lamp states arrive exactly as sent (DM1, DTC, DM22)."""
import json
import common as C
import items, scen, refpeer as R

ITEMS = ['item_dtc_pack', 'item_dtc_unpack', 'item_lamp_data', 'item_lamp_status', 'item_dm22', 'item_dm1_build', 'item_dm1_parse']
FILES = ['theories/Base.v', 'theories/gen/DiagGen.v', 'theories/Dm1Model.v', 'proofs/CodecProofs.v', 'proofs/DiagProofs.v', 'theories/Items.v',
         'theories/gen/Codec.v', 'theories/gen/Tp21Gen.v', 'theories/gen/CaGen.v', 'theories/CodecGlue.v', 'theories/Model21.v', 'proofs/Flat.v',
         'proofs/Tp21Seg.v', 'proofs/Tp21Resp.v', 'proofs/Tp21Orig.v', 'proofs/Net21.v', 'proofs/Net21Proofs.v', 'proofs/Net21Bam.v', 'proofs/Dm1Net.v', 'proofs/Net21Seq.v', 'proofs/Net21BamSeq.v',
         'theories/gen/Tp22Gen.v', 'theories/Model22.v', 'proofs/MpgProofs.v', 'proofs/PoolProofs.v', 'proofs/Tp22Proofs.v', 'proofs/Tp22Resp.v', 'proofs/Net22.v', 'proofs/Net22Proofs.v', 'proofs/Net22Bam.v']
KEYS = ('pl', 'awl', 'rsl', 'mil')


def codec_oracle(out, rng, n):
    from j1939.diagnostic_messages import DTC, DtcLamp, Dm22
    viol = []
    for spn, fmi, oc in items.tuples(rng, [19, 5, 7], n):
        d = DTC(spn=spn, fmi=fmi, oc=oc)
        b = [(d.dtc >> (8 * k)) & 0xFF for k in range(4)]
        if b != R.ref_dtc_bytes(spn, fmi, oc):
            viol.append(('dtc-bytes', (spn, fmi, oc), b, R.ref_dtc_bytes(spn, fmi, oc)))
        back = DTC(dtc=d.dtc)
        if (back.spn, back.fmi, back.oc) != (spn, fmi, oc):
            viol.append(('dtc-roundtrip', (spn, fmi, oc), (back.spn, back.fmi, back.oc), (spn, fmi, oc)))
        out.add_case(('dtc', spn, fmi, oc), True)
    for a in range(5):
        for b_ in range(5):
            for c in range(5):
                for d in range(5):
                    st = dict(pl=a, awl=b_, rsl=c, mil=d)
                    data = DtcLamp().get_data(dict(st))
                    if list(data) != R.ref_lamp_bytes(st):
                        viol.append(('lamp-bytes', st, list(data), R.ref_lamp_bytes(st)))
                    back = {k: DtcLamp().get_status((data[0] >> R.LAMP_POS[k]) & 3, (data[1] >> R.LAMP_POS[k]) & 3) for k in KEYS}
                    if back != st:
                        viol.append(('lamp-roundtrip', st, back, st))
                    out.add_case(('lamp', a, b_, c, d), True)
    # the same table with the four lamps listed in any order: a lamp state belongs to its key, not to its position
    import itertools
    perms = list(itertools.permutations(KEYS))
    for a in range(5):
        for b_ in range(5):
            for c in range(5):
                for d in range(5):
                    st = dict(pl=a, awl=b_, rsl=c, mil=d)
                    for perm in (perms[(a * 7 + b_ * 5 + c * 3 + d) % 24], perms[rng.randrange(24)]):
                        data = DtcLamp().get_data({k: st[k] for k in perm})
                        if list(data) != R.ref_lamp_bytes(st):
                            viol.append(('lamp-bytes-keys-in-another-order', {k: st[k] for k in perm}, list(data), R.ref_lamp_bytes(st)))

    class FakeCa:
        def __init__(s): s.sent = None
        def send_pgn(s, dp, pf, ps, prio, data): s.sent = (dp, pf, ps, prio, list(data))
    for ctrl, spn, fmi in [(17, s, f) for s, f in [(0x7ABCD, 0x15), (0x10000, 0), (0xFFFF, 31), (0x7FFFF, 31), (1, 1)]] + \
                          [(1, rng.getrandbits(19), rng.getrandbits(5)) for _ in range(n // 4)]:
        fc = FakeCa()
        (Dm22(fc).request_clear_act_dtc if ctrl == 17 else Dm22(fc).request_clear_pa_dtc)(0x30, spn, fmi)
        exp = R.ref_dm22_payload(ctrl, spn, fmi)
        if fc.sent[4] != exp or fc.sent[:3] != (0, 0xC3, 0x30):
            viol.append(('dm22-layout', (ctrl, spn, fmi), fc.sent, exp))
        out.add_case(('dm22', ctrl, spn, fmi), True)
    return viol


# ---------------------------------------------------------------- DM1 end to end on real stacks
def gen(rng, k):
    n = rng.choice([1, 1, 2, 3, 5, 12, 40]) if k % 9 else rng.choice([100, 400, 440])
    dtcs = [[rng.choice([0, 1, 0xFFFF, 0x10000, 0x7FFFF, rng.getrandbits(19)]), rng.getrandbits(5), rng.getrandbits(7)] for _ in range(n)]
    lamps = [rng.randint(0, 4) for _ in range(4)]
    npk = (2 + 4 * n + 6) // 7
    transfer = 0 if n == 1 else (npk + 1) * 50000
    cycle = rng.choice([max(transfer + 60000, 100000), max(transfer + 60000, 250000), 1000000 + transfer])
    stop = 1000 + cycle * rng.choice([2, 3]) + rng.choice([1000, cycle // 2])
    dll = 'j1939-21'
    if k % 4 == 2:
        # the same service on the FD layer: up to 14 codes travel in one multi-PG frame, more as an FD broadcast — for more cycles
        # than there are broadcast session numbers
        dll = 'j1939-22'
        n = rng.choice([3, 14, 15, 16, 16, 40])
        dtcs = [[rng.getrandbits(19), rng.getrandbits(5), rng.getrandbits(7)] for _ in range(n)]
        cycle = rng.choice([150000, 400000])
        stop = 1000 + cycle * rng.choice([2, 6, 7]) + rng.choice([1000, cycle // 2])
        transfer = 200000
    sc = dict(kind='dm1', dll=dll, lamps=lamps, dtcs=dtcs, cycle=cycle, stop=stop, horizon=stop + 3 * cycle + transfer + 500000,
              lat=[rng.choice([0, 1, 5000])], nrecv=rng.choice([1, 2]), bound_methods=rng.random() < 0.5)
    # receivers: operational CAs, or CAs that never claimed an address (a DM1 is a broadcast: passive listeners get it too)
    sc['recv_kinds'] = [rng.choice(['normal', 'normal', 'unclaimed']) for _ in range(sc['nrecv'])]
    # the first subscriber of the first receiver's Dm1 object sorts / empties what it is handed; the next subscriber of the same
    # object must still get what was sent
    sc['mutating_first'] = rng.random() < 0.35
    sc['resubscribe'] = rng.random() < 0.3
    if rng.random() < 0.3 and sc['recv_kinds'][0] == 'normal':
        sc['recv_sends'] = dict(dtcs=[[rng.getrandbits(19), rng.getrandbits(5), rng.getrandbits(7)]], cycle=rng.choice([60000, 170000, 333000]))
    if k % 5 == 3 and sc['recv_kinds'][0] == 'normal':
        # an application that keeps ONE lamp dictionary and ONE list of trouble-code dictionaries and hands the same objects over
        # at every cycle, on a Dm1 object that is also subscribed to the DM1 of the other nodes — and another node does send its own
        # DM1 (other lamps): what the application supplies stays what it put there
        sc['keeps_dicts'] = True
        sc['sender_listens'] = True
        sc['recv_sends'] = dict(dtcs=[[rng.getrandbits(19), rng.getrandbits(5), rng.getrandbits(7)]], cycle=rng.choice([60000, 170000, 333000]))
    if k % 7 == 5 and dll == 'j1939-21' and 2 <= n <= 12 and not sc.get('keeps_dicts'):
        # the sending CA also broadcasts a long application message that is on the bus when one DM1 cycle falls due: that one
        # DM1 may be refused (the transport is busy for this source), the cyclic DM1 goes on afterwards
        sc['cycle'] = max(sc['cycle'], 400000)
        cyc = sc['cycle']
        sc['app_broadcast'] = dict(at=1000 + cyc * 2 - rng.choice([60000, 120000]), len=rng.choice([30, 60]))
        sc['stop'] = 1000 + cyc * 5 + 1000
        sc['horizon'] = sc['stop'] + 3 * cyc + transfer + 500000
    fam = k % 6
    if sc.get('app_broadcast'):
        fam = -1
    if fam == 0 and n >= 2 and dll == 'j1939-21' and k % 12 == 0:
        # one frame of a multi-packet DM1 is lost on the bus, and the next DM1 is announced before the receivers have given the
        # incomplete one up (cycle below T1 = 750 ms after the transfer): what arrives later is still what ONE call supplied
        sc['varying'] = True
        sc['lossy'] = True
        sc['lose_frame'] = rng.randint(2, 1 + npk)
        sc['cycle'] = transfer + rng.choice([60000, 150000, 300000])
        sc['stop'] = 1000 + sc['cycle'] * rng.choice([3, 4]) + 1000
        sc['horizon'] = sc['stop'] + 2 * transfer + 2_000_000
        sc.pop('recv_sends', None)
    elif fam == 5:
        # a second start_send on the same Dm1 object, other callback, other cycle time: both keep running until their own stop_send
        sc['dtcs'] = sc['dtcs'][:1]
        sc['cycle'] = rng.choice([100000, 250000])
        sc['second_start'] = rng.choice([10000, 130000, 260000])
        sc['cycle2'] = rng.choice([70000, 170000, 400000])
        sc['dtcs2'] = [[rng.getrandbits(19), rng.getrandbits(5), rng.getrandbits(7)]]
        sc['stop'] = 1000 + sc['cycle'] * rng.choice([5, 7]) + 1000
        sc['horizon'] = sc['stop'] + 1_500_000
    elif fam == 1:
        # the application supplies different data every cycle (occurrence counts go up)
        sc['varying'] = True
    elif fam == 2 and n >= 2:
        # ... and the cycle is shorter than the multi-packet transfer: the next cycle fires while the DM1 is still in flight
        sc['varying'] = True
        sc['overlap'] = True
        sc['cycle'] = max(100000, transfer // rng.choice([2, 3]) + 20000)
        sc['stop'] = 1000 + sc['cycle'] * rng.choice([4, 6]) + 1000
        sc['horizon'] = sc['stop'] + 2 * transfer + 1_000_000
    elif fam == 4:
        # stop_send is called by the application from inside its own data callback (while the DM1 timer callback runs)
        sc['stop_mode'] = 'self'
        sc['stop_at_call'] = rng.choice([1, 2, 3])
        sc['stop'] = 1000 + sc['cycle'] * sc['stop_at_call']
    elif fam == 3:
        # stop_send is called from another timer callback that is registered earlier and due in the same pass
        sc['stop_mode'] = 'timer'
        sc['stop_at_firing'] = rng.choice([1, 2, 3])
        sc['stop'] = 1000 + sc['cycle'] * sc['stop_at_firing']
    return sc


def runner(sc):
    import vts, stack, j1939
    sim = vts.Sim(jitters=[1])
    sim.latency = lambda c, s, d: sc['lat'][c % len(sc['lat'])]
    if sc.get('lose_frame'):
        sim.faults = [dict(drop=sc['lose_frame'])]
    res = scen.Result()
    try:
        A = stack.Stack(sim, sc['dll'], 3)
        ca = A.add_ca(0x1234, 0x20, True)
        recv = []
        got = []
        for i in range(sc['nrecv']):
            B = stack.Stack(sim, sc['dll'], 3)
            cb = B.add_ca(0x2000 + i, 0x30 + i, sc.get('recv_kinds', ['normal'] * 8)[i] == 'normal')
            dm = j1939.Dm1(cb)
            if sc.get('mutating_first') and i == 0:
                def mutate(sa, lamps, dtcs, ts):
                    dtcs.sort(key=lambda d: (d['spn'], d['fmi'], d['oc']))
                    if dtcs:
                        dtcs.pop()
                    lamps.clear()
                dm.subscribe(mutate)
            rec = (lambda sa, lamps, dtcs, ts, i=i: got.append((sim.now, i, sa, [lamps[k] for k in KEYS], [[d['spn'], d['fmi'], d['oc']] for d in dtcs])))
            if sc.get('resubscribe') and i == 0:
                # the subscriber was registered, removed again (it was the last one) and registered once more before any traffic
                dm.subscribe(rec)
                dm.unsubscribe(rec)
            dm.subscribe(rec)
            if sc.get('recv_sends') and i == 0:
                # the same Dm1 object also sends this node's own DM1 (other content, its own cycle)
                own = [dict(spn=s_, fmi=f_, oc=o_) for s_, f_, o_ in sc['recv_sends']['dtcs']]
                sim.at(700, lambda dm=dm, own=own: dm.start_send(lambda: (dict(zip(KEYS, [1, 0, 1, 0])), own), sc['recv_sends']['cycle'] / 1e6))
            recv.append(B)
        dmA = j1939.Dm1(ca)
        calls = []

        events = []          # ('call', t, supplied dtcs) | ('stop', t) in the order they happened
        res.events = events

        src2 = None

        kept = {}
        if sc.get('sender_listens'):
            dmA.subscribe(lambda sa, lamps, dtcs, ts: None)

        def src():
            calls.append(sim.now)
            k = len(calls) - 1
            dt = [[s, f, (o + k) & 0x7F if sc.get('varying') else o] for s, f, o in sc['dtcs']]
            events.append(('call', sim.now, dt))
            if sc.get('stop_mode') == 'self' and len(calls) == sc['stop_at_call']:
                stop()
            if sc.get('keeps_dicts') and not sc.get('varying'):
                if not kept:
                    kept['lamps'] = dict(zip(KEYS, sc['lamps']))
                    kept['dtcs'] = [dict(spn=s, fmi=f, oc=o) for s, f, o in dt]
                return (kept['lamps'], kept['dtcs'])
            order = [KEYS[(i + k) % 4] for i in range(4)]            # the lamp dictionary is built in a different key order each cycle
            return ({kk: sc['lamps'][KEYS.index(kk)] for kk in order}, [dict(spn=s, fmi=f, oc=o) for s, f, o in dt])

        class App:
            # the application hands over bound methods (a fresh method object at every attribute access), as applications do
            def dm1_data(self_):
                return src()

            def dm1_data2(self_):
                return src2()
        app = App()

        def stop():
            dmA.stop_send(app.dm1_data if sc.get('bound_methods') else src)
            events.append(('stop', sim.now))
        if sc.get('stop_mode') == 'timer':
            fired = {'n': 0}

            def stopper(cookie):
                fired['n'] += 1
                if fired['n'] == sc['stop_at_firing']:
                    stop()
                    return False
                return True
            sim.at(1000, lambda: A.ecu.add_timer(sc['cycle'] / 1e6, stopper))
        sim.at(1000, lambda: dmA.start_send(app.dm1_data if sc.get('bound_methods') else src, sc['cycle'] / 1e6))
        if sc.get('second_start'):
            def src2():
                events.append(('call2', sim.now, [list(d) for d in sc['dtcs2']]))
                return (dict(zip(KEYS, sc['lamps'])), [dict(spn=s, fmi=f, oc=o) for s, f, o in sc['dtcs2']])
            sim.at(1000 + sc['second_start'], lambda: dmA.start_send(app.dm1_data2 if sc.get('bound_methods') else src2, sc['cycle2'] / 1e6))
            sim.at(sc['stop'] + 400000, lambda: dmA.stop_send(app.dm1_data2 if sc.get('bound_methods') else src2))
        if sc.get('stop_mode') not in ('timer', 'self'):
            sim.at(sc['stop'], stop)
        if sc.get('app_broadcast'):
            ab = sc['app_broadcast']
            sim.at(ab['at'], lambda: ca.send_pgn(0, 0xFE, 0x10, 6, [(7 * i) & 0xFF for i in range(ab['len'])]))
        sim.run_until(sc['horizon'])
        res.trace = list(sim.trace)
        res.got = got
        res.calls = calls
        res.job = [s.job_state() for s in sim.stacks]
        res.empty = [s.tables_empty() for s in sim.stacks]
    finally:
        sim.close()
    return res


def g_before_stop(res, sc, i, first):
    """deliveries at receiver i of what the FIRST callback supplied (with a second start_send running as well)"""
    return sum(1 for g in res.got if g[1] == i and g[2] == 0x20 and g[4] in first)


def oracle(sc, res):
    v = []
    exp_l = sc['lamps']
    supplied = [e[2] for e in res.events if e[0] in ('call', 'call2')]
    for (t, i, sa, lamps, dtcs) in res.got:
        # every DM1 that arrives is what the callback supplied at ONE of its calls — never a blend of two cycles
        if sa != 0x20:
            continue        # (a DM1 of another sender on the bus)
        if lamps != exp_l or dtcs not in supplied:
            v.append(dict(kind='dm1-content-differs', t=t, receiver=i, lamps=lamps, dtcs=dtcs[:3], expected_lamps=exp_l, expected_one_of=[d[:3] for d in supplied[:3]]))
            break
    before = [c for c in res.calls if c < sc['stop']]
    stop_t = max([e[1] for e in res.events if e[0] == 'stop'] + [sc['stop']])       # the instant stop_send actually ran
    after = [c for c in res.calls if c > stop_t]
    if after:
        v.append(dict(kind='dm1-sent-after-stop_send', stop=sc['stop'], calls_after=after[:3]))
    # ... in the order things happened (a stop_send issued from a timer callback takes effect within the same pass)
    kinds = [e[0] for e in res.events]
    if 'stop' in kinds and 'call' in kinds[kinds.index('stop'):]:
        v.append(dict(kind='dm1-callback-invoked-after-stop_send-returned', stop=sc['stop'], events=[(e[0], e[1]) for e in res.events][-4:]))
    if not all(res.empty):
        # "until stop_send": when the last DM1 has gone out nothing of the service is left behind — no transport session, no session
        # number still taken
        v.append(dict(kind='dm1-sender-or-receiver-not-idle-afterwards', tables_empty=list(res.empty)))
    if sc.get('lossy'):
        for j, js in enumerate(res.job):
            if js != 'alive':
                v.append(dict(kind='job-thread-' + js, stack=j))
        for i in range(sc['nrecv']):
            n_i = sum(1 for g in res.got if g[1] == i and g[2] == 0x20)
            if n_i < len(before) - 1:
                v.append(dict(kind='dm1-deliveries-after-one-lost-frame', receiver=i, cycles=len(before), observed=n_i))
        return v
    if sc.get('overlap') or sc.get('stop_mode') in ('timer', 'self'):
        # cycles that fire while a DM1 is in flight are refused; the per-cycle counts below do not apply
        for j, js in enumerate(res.job):
            if js != 'alive':
                v.append(dict(kind='job-thread-' + js, stack=j))
        if sc.get('overlap') and not res.got:
            v.append(dict(kind='dm1-never-delivered', calls=len(res.calls)))
        return v
    exp_cycles = (sc['stop'] - 1000) // sc['cycle']
    if len(before) != exp_cycles:
        v.append(dict(kind='dm1-cycles', expected=exp_cycles, observed=len(before)))
    if sc.get('app_broadcast'):
        # one cycle may have met the busy transport; every other one arrives
        for i in range(sc['nrecv']):
            n_i = sum(1 for g in res.got if g[1] == i and g[2] == 0x20)
            if n_i < len(before) - 1:
                v.append(dict(kind='dm1-deliveries-after-an-own-broadcast', receiver=i, cycles=len(before), observed=n_i))
        for j, js in enumerate(res.job):
            if js != 'alive':
                v.append(dict(kind='job-thread-' + js, stack=j))
        return v
    per = {}
    first = [e[2] for e in res.events if e[0] == 'call']
    for g in res.got:
        if g[2] != 0x20:
            continue            # a DM1 of another sender on the bus (a receiver that also sends its own)
        if not sc.get('second_start') or g[4] in first:
            per[g[1]] = per.get(g[1], 0) + 1
    for i in range(sc['nrecv']):
        if sc.get('second_start') and g_before_stop(res, sc, i, first) is not None:
            per[i] = g_before_stop(res, sc, i, first)
        if per.get(i, 0) != len(before):
            v.append(dict(kind='dm1-deliveries', receiver=i, expected=len(before), observed=per.get(i, 0)))
    for j, js in enumerate(res.job):
        if js != 'alive':
            v.append(dict(kind='job-thread-' + js, stack=j))
    return v


def run(out, tier, rng, work):
    out.rule = ('item-level correspondence of the DTC/lamp/DM22/DM1-payload definitions (generated + Dm1Model) against the real classes; '
                'codec oracle against plain-arithmetic J1939-73 layouts (all 5^4 lamp combinations, bit-walking SPN/FMI/OC); end to end: a real '
                'DM1 sender with 1..440 trouble codes and 1-2 real DM1 subscribers on J1939-21 stacks, several cycle times, stop_send: every '
                'delivery equals what the callback supplied, one per cycle until stop_send, none after; a family with one frame of a multi-packet DM1 lost on the bus; non-trivial = every case'
                ' Receivers that never claimed an address; a first subscriber that sorts/empties what it is handed; a second start_send on the same Dm1 object.')
    out.assumptions = ['cycle time >= transfer time (a BAM in flight refuses the next DM1)', 'A1-A6 of DESIGN.md section 3',
                       'the cyclic-send state machine (start_send/stop_send + timer) is checked on the real code by the oracle and through C12\'s timer theorems; it is not part of a replayed Coq model']
    C.std_proof_stage(out, 'C16', FILES)
    n = 300 if tier == 'quick' else 3000
    total, mism, errors = items.run_items(ITEMS, rng, n, work, C)
    out.traces_validated = total
    for e in errors:
        out.broken.append('item correspondence %s did not evaluate: %s' % (e[0], e[1][-200:]))
    for m in mism[:20]:
        out.broken.append('correspondence %s: model and implementation differ on input %s (impl %s)' % (m[0], m[1][:12], m[2][:12]))
    viol = codec_oracle(out, rng, n)
    seen = set()
    for kind, inp, got, exp in viol:
        if kind in seen:
            continue
        seen.add(kind)
        out.violation('%s: input %s gives %s, expected %s' % (kind, inp, got, exp), dict(kind=kind),
                      dict(broke='oracle', oracle=kind, input=inp, observed=got, expected=exp))
    nsc = 42 if tier == 'quick' else 360
    worst = {}
    import sprop
    corpus = [sc for _name, sc in sprop.load_corpus('C16')]         # minimised scenarios of the defects found so far run first
    for k in range(-len(corpus), nsc):
        sc = corpus[k + len(corpus)] if k < 0 else gen(rng, k)
        res = runner(sc)
        out.add_case(scen.sc_hash(sc), len(res.got) > 0, sample=dict(n_dtcs=len(sc['dtcs']), cycle=sc['cycle'], deliveries=len(res.got)) if k < 3 else None)
        for x in oracle(sc, res):
            if x['kind'] not in worst or len(json.dumps(sc)) < len(json.dumps(worst[x['kind']][1])):
                worst[x['kind']] = (x, sc)
    for kind, (x, sc) in worst.items():
        out.violation('%s: %s' % (kind, json.dumps(x)[:300]), dict(kind=kind), dict(broke='oracle', scenario=sc, violation=x))

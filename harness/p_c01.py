"""C01 — J1939-21 transport delivers every accepted message intact, exactly once."""
import common as C
import sprop, gen_tp, oracle_tp, netcorr

FILES = ['theories/Base.v', 'theories/gen/Codec.v', 'theories/gen/Tp21Gen.v', 'theories/gen/CaGen.v', 'theories/CodecGlue.v',
         'theories/Model21.v', 'theories/Replay21.v', 'proofs/CodecProofs.v', 'proofs/Flat.v', 'proofs/Tp21Seg.v',
         'proofs/Tp21Resp.v', 'proofs/Tp21Orig.v', 'proofs/FrameLocal.v', 'proofs/Tp21Bam.v',
         'theories/SkelDefs.v', 'theories/FlowDefs.v', 'theories/gen/SkelGen.v', 'proofs/FlowProofs.v', 'proofs/OrderProofs.v',
         'proofs/Net21.v', 'proofs/Net21Proofs.v', 'proofs/Net21Bam.v']


def gen(rng, k):
    return gen_tp.gen_transfers(rng, big=(k % 12 == 0))


def nontrivial(sc, res):
    return any(e[2] == 'tx' and ((e[3] >> 16) & 0xFF) in (0xEB, 0xEC) for e in res.trace)


def sample(sc, res):
    return dict(stacks=[dict(max_cmdt=s['max_cmdt']) for s in sc['stacks']], lat=sc['lat'],
                sends=[dict(t=e['t'], stack=e['s'], pf=e['a'][1], ps=e['a'][2], sa=e['a'][4], length=e['a'][5]['len']) for e in sc['script']][:4],
                frames_on_bus=sum(1 for e in res.trace if e[2] == 'tx'))


oracle = oracle_tp.check_exactly_once


def run(out, tier, rng, work):
    out.rule = ('2-4 real stacks under virtual time; 1-6 concurrent transfers on distinct (SA,DA) pairs, both directions, sizes on all '
                'residues mod 7 incl. 0,1,7,8,9,1784,1785, window pairs from {1,2,3,7,8,127,254,255,random}, per-receiver latencies '
                'from {0 (re-entrant),1us,0.5ms,5ms}; oracle: observed callbacks == expected deliveries + one EndOfMsgACK report per '
                'completed CMDT; every handler log replayed on the Coq model (digest of all outputs and state summaries); '
                'non-trivial = at least one TP.CM/TP.DT frame on the bus; distinct by scenario hash')
    out.assumptions = ['A1-A6 of DESIGN.md section 3 (exact clock, atomic zero-duration handlers, FIFO bus per receiver)',
                       'the closed-loop theorem (T01.8) is for one transfer between two otherwise idle nodes without pacing, under the '
                       'schedule of Net21.v (frames first, then the job threads); any-schedule and many-transfer network theorems are '
                       'not proved: covered by frame locality (T01.7) plus the correspondence runs (testing)']
    out.extra['partial'] = ['closed loop proved for one transfer / one schedule (T01.8); any-schedule network theorems not proved; '
                            'role theorems T01.1, T01.3, T01.4, T01.5, frame locality T01.7 proved']
    sprop.run_stateful(out, 'C01', tier, rng, work, FILES, gen, lambda sc, res: oracle_tp.check_exactly_once(sc, res),
                       120, 1500, nontrivial, sample=sample)
    # closed-loop correspondence: the network model of theorem C01_closed_loop_delivers against two real stacks
    n, mism, errors, bad = netcorr.run(work, rng, 16 if tier == 'quick' else 160, big=(tier != 'quick'), tag='c01net')
    out.extra['closed_loop_cases'] = n
    out.traces_validated += n
    for c, sc, what in bad[:1]:
        out.violation(what, dict(kind='closed-loop-not-delivered'),
                      dict(broke='oracle', scenario=sc, violation=dict(kind='closed-loop-not-delivered', what=what), scenario_name='closed-loop',
                           how='./check replay <this file> re-runs the scenario on /repo and prints the oracle verdict'))
    for name, o in errors[:3]:
        out.broken.append('closed-loop correspondence %s did not evaluate: %s' % (name, o[-200:].replace('\n', ' ')))
    for c, i, m, im in mism[:3]:
        out.broken.append('closed-loop correspondence: network model and two real stacks differ (case %s) at observation %s: model %s / impl %s'
                          % (c, i, str(m)[:120], str(im)[:120]))

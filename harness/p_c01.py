"""C01 — J1939-21 transport delivers every accepted message intact, exactly once."""
import common as C
import sprop, gen_tp, oracle_tp, netcorr

FILES = ['theories/Base.v', 'theories/gen/Codec.v', 'theories/gen/Tp21Gen.v', 'theories/gen/CaGen.v', 'theories/CodecGlue.v',
         'theories/Model21.v', 'theories/Replay21.v', 'proofs/CodecProofs.v', 'proofs/Flat.v', 'proofs/Tp21Seg.v',
         'proofs/Tp21Resp.v', 'proofs/Tp21Orig.v', 'proofs/FrameLocal.v', 'proofs/Tp21Bam.v',
         'theories/SkelDefs.v', 'theories/FlowDefs.v', 'theories/gen/SkelGen.v', 'proofs/FlowProofs.v', 'proofs/OrderProofs.v',
         'proofs/Net21.v', 'proofs/Net21Proofs.v', 'proofs/Net21Bam.v', 'proofs/Net21Seq.v']


def gen(rng, k):
    return gen_tp.gen_transfers(rng, big=(k % 6 == 0))


def nontrivial(sc, res):
    return any(e[2] == 'tx' and ((e[3] >> 16) & 0xFF) in (0xEB, 0xEC) for e in res.trace)


def sample(sc, res):
    return dict(stacks=[dict(max_cmdt=s['max_cmdt']) for s in sc['stacks']], lat=sc['lat'],
                sends=[dict(t=e['t'], stack=e['s'], pf=e['a'][1], ps=e['a'][2], sa=e['a'][4], length=e['a'][5]['len']) for e in sc['script'] if e['op'] == 'send'][:4],
                frames_on_bus=sum(1 for e in res.trace if e[2] == 'tx'))


oracle = oracle_tp.check_exactly_once


def moved_cases(rng, n):
    """the addressed application is a controller application that lost its preferred address A to a lower NAME and now holds
    A+1: a transfer to A+1 reaches it (exactly once, intact), a transfer to A reaches the CA that kept A"""
    import gen_ca, scen
    for k in range(n):
        A = rng.choice(gen_ca.VETO[:100] + gen_ca.IMMEDIATE[:100])
        low = gen_ca.mk_name(rng, False) & ((1 << 40) - 1)
        high = gen_ca.mk_name(rng, True) | (1 << 62)
        stacks = [dict(dll='j1939-21', max_cmdt=rng.choice([1, 3, 255]), subs=[], cas=[dict(name=high, addr=A, bypass=False, subs=[1], req=[])]),
                  dict(dll='j1939-21', max_cmdt=3, subs=[], cas=[dict(name=low, addr=A, bypass=False, subs=[2], req=[])]),
                  dict(dll='j1939-21', max_cmdt=rng.choice([1, 2, 255]), subs=[dict(cid=3, filt=0xF0)], cas=[])]
        n1, n2 = rng.choice([9, 20, 64]), rng.choice([3, 8, 15])
        script = [dict(t=1000, s=1, op='ca_start', ca=0, delay=0), dict(t=rng.choice([1500, 120000, 400000]), s=0, op='ca_start', ca=0, delay=0),
                  dict(t=1_500_000, s=2, op='send', a=[0, 0xD0, A + 1, 6, 0xF0, dict(seed=rng.getrandbits(20), len=n1)]),
                  dict(t=1_900_000, s=2, op='send', a=[0, 0xD1, A, 6, 0xF0, dict(seed=rng.getrandbits(20), len=n2)])]
        yield dict(stacks=stacks, lat=[rng.choice([1, 500])], jit=[1], script=script, horizon=4_000_000, meta=dict(kind='moved-ca', A=A))


def chain_cases(rng, n):
    """replies that are processed before the sending call has returned, one step further: B's application answers A's long
    message from its receive callback, and A's application submits its NEXT long message to B from the callback for that
    answer (all inside the call that handed A's last data packet to the bus); A's application thread also retries a little
    later.  Whatever send_pgn accepts must arrive exactly once."""
    for k in range(n):
        a, b = rng.choice([(0x10, 0x20), (0, 0x21), (0x80, 0x7F)])
        n1, n2 = rng.choice([9, 15, 30, 64]), rng.choice([9, 20, 33])
        m2 = [0, 0xD2, b, 6, a, dict(seed=rng.getrandbits(20), len=n2)]
        m3 = [0, 0xD3, b, 6, a, dict(seed=rng.getrandbits(20), len=rng.choice([9, 12]))]
        stacks = [dict(dll='j1939-21', max_cmdt=rng.choice([1, 3, 255]),
                       subs=[dict(cid=1, filt=a, script=[dict(op='send', if_pgn=0xD100, once='m2', a=m2)])], cas=[]),
                  dict(dll='j1939-21', max_cmdt=rng.choice([1, 2, 255]),
                       subs=[dict(cid=2, filt=b, script=[dict(op='send', if_pgn=0xD000, once='reply', a=[0, 0xD1, a, 6, b, [1, 2, 3, k % 256]])])], cas=[])]
        if k % 2:
            # ... and from the report of the peer's end-of-message acknowledgement (it arrives inside the job thread's call that
            # hands over the last data packet) the application submits a long message to a THIRD node: a new send session
            # comes into being while the job pass is walking over the send sessions
            c = 0x31
            stacks[0]['subs'][0]['script'].append(dict(op='send', if_pgn=0xD000, once='m4', a=[0, 0xD4, c, 6, a, dict(seed=rng.getrandbits(20), len=rng.choice([9, 33, 40]))]))
            stacks.append(dict(dll='j1939-21', max_cmdt=rng.choice([1, 4, 255]), subs=[dict(cid=3, filt=c, script=[])], cas=[]))
        script = [dict(t=1000, s=0, op='send', a=[0, 0xD0, b, 6, a, dict(seed=rng.getrandbits(20), len=n1)])]
        script += [dict(t=1000 + d, s=0, op='send', a=m3) for d in rng.sample([300, 1000, 3000, 20000, 60000, 200000], 3)]
        yield dict(stacks=stacks, lat=[0], jit=[1], script=sorted(script, key=lambda e: e['t']), horizon=4_000_000,
                   meta=dict(kind='reply-chain', callback_sends=True))


def scenario_runner(sc):
    import scen
    return scen.run(sc)


def moved_oracle(sc, res):
    import scen
    v = []
    sends = [e for e in sc['script'] if e['op'] == 'send']
    p1, p2 = tuple(scen.payload(sends[0]['a'][5])), tuple(scen.payload(sends[1]['a'][5]))
    got1 = [tuple(e[7]) for e in res.trace if e[2] == 'cb' and e[1] == 0 and e[3] == 1 and e[0] > 1_400_000]
    got2 = [tuple(e[7]) for e in res.trace if e[2] == 'cb' and e[1] == 1 and e[3] == 2 and e[0] > 1_400_000]
    if got1 != [p1]:
        v.append(dict(kind='message-to-the-address-a-ca-moved-to-not-delivered', A=sc['meta']['A'], deliveries=len(got1),
                      holder_state=[list(x) for x in res.cas[0]]))
    if got2 != [p2]:
        v.append(dict(kind='message-to-the-contested-address-not-delivered-to-its-keeper', A=sc['meta']['A'], deliveries=len(got2)))
    return v


def scenario_oracle(sc, res):
    if sc.get('meta', {}).get('kind') == 'moved-ca':
        return moved_oracle(sc, res)
    return oracle(sc, res)


def run(out, tier, rng, work):
    out.rule = ('2-4 real stacks under virtual time; 1-6 concurrent transfers on distinct (SA,DA) pairs, both directions, sizes on all '
                'residues mod 7 incl. 0,1,7,8,9,1784,1785, window pairs from {1,2,3,7,8,127,254,255,random}, per-receiver latencies '
                'from {0 (re-entrant),1us,0.5ms,5ms}; oracle: observed callbacks == expected deliveries + one EndOfMsgACK report per '
                'completed CMDT; every handler log replayed on the Coq model (digest of all outputs and state summaries); '
                'non-trivial = at least one TP.CM/TP.DT frame on the bus; distinct by scenario hash'
                " Plus: 'reply chain' family (zero latency; the next message to the same peer is submitted from the callback for the peer's answer, inside the call that sent the last packet), 'moved CA' family (the addressed CA lost its preferred address and holds the next one), cyclic application timers on the ECUs in a quarter of the scenarios, and the closed-loop correspondence of the network model (Net21.v) against two real stacks incl. broadcast.")
    out.assumptions = ['A1-A6 of DESIGN.md section 3 (exact clock, atomic zero-duration handlers, FIFO bus per receiver)',
                       'the closed-loop theorem (T01.8) is for one transfer between two otherwise idle nodes without pacing, under the '
                       'schedule of Net21.v (frames first, then the job threads); any-schedule and many-transfer network theorems are '
                       'not proved: covered by frame locality (T01.7) plus the correspondence runs (testing)']
    out.extra['partial'] = ['closed loop proved for one transfer / one schedule (T01.8); any-schedule network theorems not proved; '
                            'role theorems T01.1, T01.3, T01.4, T01.5, frame locality T01.7 proved']
    sprop.run_stateful(out, 'C01', tier, rng, work, FILES, gen, lambda sc, res: oracle_tp.check_exactly_once(sc, res),
                       120, 1500, nontrivial, sample=sample)
    import scen as _scen
    for sc in moved_cases(rng, 6 if tier == 'quick' else 60):
        res = _scen.run(sc)
        out.add_case(_scen.sc_hash(sc), True)
        for x in moved_oracle(sc, res)[:1]:
            out.violation('%s: %s' % (x['kind'], str(x)[:250]), dict(kind=x['kind']), dict(broke='oracle', scenario=sc, violation=x, scenario_name='moved-ca',
                          how='./check replay <this file> re-runs the scenario on /repo and prints the oracle verdict'))
            break
    for sc in chain_cases(rng, 6 if tier == 'quick' else 60):
        res = _scen.run(sc)
        out.add_case(_scen.sc_hash(sc), True)
        for x in oracle_tp.check_exactly_once(sc, res)[:1]:
            out.violation('%s in a reply chain between callbacks: %s' % (x['kind'], str(x)[:250]), dict(kind=x['kind']),
                          dict(broke='oracle', scenario=sc, violation=x, scenario_name='reply-chain',
                               how='./check replay <this file> re-runs the scenario on /repo and prints the oracle verdict'))
            break
    # closed-loop correspondence: the network model of theorem C01_closed_loop_delivers against two real stacks
    n, mism, errors, bad = netcorr.run(work, rng, 16 if tier == 'quick' else 160, big=(tier != 'quick'), tag='c01net', only='21')
    out.extra['closed_loop_cases'] = n
    out.traces_validated += n
    for c, sc, what in bad[:1]:
        out.violation(what, dict(kind='closed-loop-not-delivered'),
                      dict(broke='oracle', scenario=sc, violation=dict(kind='closed-loop-not-delivered', what=what), scenario_name='closed-loop',
                           how='./check replay <this file> re-runs the scenario on /repo and prints the oracle verdict'))
    for name, o in errors[:3]:
        out.broken.append('closed-loop correspondence %s did not evaluate: %s' % (name, o[-200:].replace('\n', ' ')))
    for c, i, m, im in mism[:3]:
        out.broken.append('closed-loop correspondence: network model and two real stacks differ (case %s) at observation %s: model %s / impl %s'
                          % (c, i, str(m)[:120], str(im)[:120]))

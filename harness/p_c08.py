"""C08 — the transfer outcome does not depend on where reception pre-empts the job thread.
Exhaustive single pre-emption: the real job thread is parked at its k-th executed line (of the package's own
code) for a chosen bus time, for EVERY k of the run, while frame reception on the same stack goes on."""
import json
import common as C
import scen, oracle_tp

FILES = ['theories/Base.v', 'theories/SkelDefs.v', 'theories/gen/SkelGen.v', 'proofs/SkelProofs.v',
         'theories/FlowDefs.v', 'proofs/FlowProofs.v', 'proofs/OrderProofs.v']


def shape(dll, kind, win, size=None):
    unit = 7 if dll == 'j1939-21' else 60
    size = size or (unit * 3 - 1)
    da = 255 if kind == 'bam' else 0x20
    pf, ps = (0xFE, 0xCA) if kind == 'bam' else (0xD0, da)
    m = 255 if win == 'all' else win
    return dict(stacks=[dict(dll=dll, max_cmdt=m, subs=[dict(cid=1, filt=0x10)], cas=[]),
                        dict(dll=dll, max_cmdt=m, subs=[dict(cid=2, filt=0x20)], cas=[])],
                lat=[300], jit=[1], script=[dict(t=1000, s=0, op='send', a=[0, pf, ps, 6, 0x10, dict(seed=5, len=size)])],
                horizon=5_000_000, dll=dll, kind=kind, win=win)


def shapes(tier):
    wins = [1, 2, 'all']
    for dll in ('j1939-21', 'j1939-22'):
        for kind in ('p2p', 'bam'):
            for w in (wins if kind == 'p2p' else [1]):
                yield shape(dll, kind, w)
    # the ECU is originator of one connection-mode transfer and responder of another at the same time (the peer sends a longer
    # message the other way): frames that make the receiving thread answer arrive while the job thread is anywhere in its pass
    for dll in ('j1939-21', 'j1939-22'):
        sc = shape(dll, 'p2p', 1)
        unit = 7 if dll == 'j1939-21' else 60
        sc['script'].append(dict(t=1000, s=1, op='send', a=[0, 0xD1, 0x10, 6, 0x20, dict(seed=9, len=unit * 5 - 2)]))
        sc['bidir'] = True
        yield sc
    # the transfer is started from a timer callback, i.e. send_pgn itself runs on the background thread (the idiom of
    # the package's examples): its lines are pre-emption points too
    for dll in ('j1939-21', 'j1939-22'):
        for kind, w in (('p2p', 1), ('p2p', 'all'), ('bam', 1)):
            sc = shape(dll, kind, w)
            send = sc['script'][0]
            sc['script'] = [dict(t=1000, s=0, op='add_timer', cid=50, delta=2000, ret=False, script=[dict(op='send', a=send['a'])])]
            sc['from_timer'] = dict(a=send['a'])
            yield sc


def reuse_shapes():
    """the application starts the next transfer to the same peer right after the first one was acknowledged — at an instant that
    falls into the suspension of the job thread when that thread is about to clear the finished session away"""
    for win in (1, 'all'):
        sc = shape('j1939-21', 'p2p', win, size=13)
        base = scen.run(dict(sc))
        acks = [e[0] for e in base.trace if e[2] == 'tx' and e[1] == 1 and ((e[3] >> 16) & 0xFF) == 0xEC and e[6][0] == 19]
        if not acks:
            continue
        for dt in (400, 650):
            sc2 = shape('j1939-21', 'p2p', win, size=13)
            a2 = [0, 0xD0, 0x20, 6, 0x10, dict(seed=77, len=17)]
            sc2['script'].append(dict(t=acks[0] + 300 + dt, s=0, op='send', a=a2))
            sc2['reuse'] = dict(a2=a2)
            yield sc2


def chain_shapes():
    """the next transfer is started from the receive path, as an answer: (21) B reacts to A's completed broadcast with a short
    command and A answers from its callback with another broadcast; (FD) A starts its next transfer to B from the callback
    that reports the end-of-message acknowledgement of the first"""
    a2 = [0, 0xFE, 0xCB, 6, 0x10, dict(seed=91, len=17)]
    cmd = [0, 0xD5, 0x10, 6, 0x20, dict(seed=92, len=3)]
    sc = shape('j1939-21', 'bam', 1, size=13)
    sc['stacks'][0]['subs'] = [dict(cid=1, filt=0x10, script=[dict(op='send', a=a2, once='answer')])]
    sc['stacks'][1]['subs'] = [dict(cid=2, filt=0x20, script=[dict(op='send', a=cmd, once='command')])]
    sc['chain'] = dict(payloads=[sc['script'][0]['a'][5], a2[5]], receiver=1, cid=2)
    yield sc
    import refpeer as R
    for win in (1, 'all'):
        sc = shape('j1939-22', 'p2p', win, size=130)
        a2 = [0, 0xD0, 0x20, 6, 0x10, dict(seed=93, len=150)]
        sc['stacks'][0]['subs'] = [dict(cid=1, filt=0x10, script=[dict(op='send', a=a2, once='next')])]
        sc['chain'] = dict(payloads=[sc['script'][0]['a'][5], a2[5]], receiver=1, cid=2)
        yield sc
        # ... or from a callback that answers a short command of B arriving right after the acknowledgement — at an instant
        # that falls into the suspension of the job thread while it clears the acknowledged session away
        base = scen.run(dict(shape('j1939-22', 'p2p', win, size=130)))
        acks = [e[0] for e in base.trace if e[2] == 'tx' and e[1] == 1 and ((e[3] >> 16) & 0xFF) == 0x4D and (e[6][0] & 0xF) == 3]
        for dt in (400, 650):
            if not acks:
                break
            sc = shape('j1939-22', 'p2p', win, size=130)
            sc['inject'] = [dict(t=acks[0] + 300 + dt, to=0, id=R.ref_can_id(6, 0xD500 + 0x10, 0x20), data=[1, 2, 3], via='listener')]
            sc['stacks'][0]['subs'] = [dict(cid=1, filt=0x10, script=[dict(op='send', a=a2, once='next-after-command', if_pgn=0xD500)])]
            sc['chain'] = dict(payloads=[sc['script'][0]['a'][5], a2[5]], receiver=1, cid=2, after_ack=dt)
            yield sc


def sweep(sc, holds, step=1, stop_after=None):
    """yields (hold, res) for every line index of both job threads"""
    for s in (0, 1):
        k = 1
        while True:
            for d in holds:
                h = dict(s=s, k=k, d=d)
                res = scen.run(dict(sc), hold=h, keep_sim=True)
                held = res.stacks[s].held_at
                res.sim.close()
                yield h, held, res
            if held is None or (stop_after and k >= stop_after):
                break
            k += step


def reader_sweep(sc, step=1):
    """the other direction: the receiving thread suspended at every line of the transport layer's frame handlers (of either stack)
    while that stack's job thread runs a pass"""
    for s in (0, 1):
        k = 1
        while True:
            h = dict(s=s, k=k, d=0, reader=True)
            res = scen.run(dict(sc), hold=h, keep_sim=True)
            held = res.stacks[s].held_at
            res.sim.close()
            yield h, held, res
            if held is None:
                break
            k += step


def runner(sc):
    return scen.run(sc, hold=sc.get('hold'))


def oracle(sc, res):
    if sc.get('chain'):
        # both messages, each exactly once, at the receiver; both stacks alive and idle at the end
        v = []
        want = sorted(tuple(scen.payload(x)) for x in sc['chain']['payloads'])
        got = sorted(tuple(e[7]) for e in res.trace if e[2] == 'cb' and e[1] == sc['chain']['receiver'] and e[3] == sc['chain']['cid'] and len(e[7]) > 8)
        if got != want:
            v.append(dict(kind='answering-transfer-not-delivered-exactly-once', deliveries=[len(g) for g in got], expected=[len(w) for w in want]))
        for j, js in enumerate(res.job):
            if js != 'alive':
                v.append(dict(kind='job-thread-' + js, stack=j))
        if not all(res.empty):
            v.append(dict(kind='session-left-at-end', empty=res.empty))
        return v
    if sc.get('reuse'):
        # first payload exactly once; the second exactly once if its send_pgn was accepted, not at all if it was refused
        v = []
        sends = [ev for ev in sc['script'] if ev['op'] == 'send']
        p1, p2 = tuple(scen.payload(sends[0]['a'][5])), tuple(scen.payload(sc['reuse']['a2'][5]))
        rets = [r for ev, r in res.returns if ev['op'] == 'send']
        got = [tuple(e[7]) for e in res.trace if e[2] == 'cb' and e[1] == 1]
        want = [p1] + ([p2] if len(rets) > 1 and rets[1] is True else [])
        if sorted(got) != sorted(want):
            v.append(dict(kind='accepted-message-not-delivered-exactly-once', accepted=[str(r) for r in rets], deliveries=[len(g) for g in got]))
        for j, js in enumerate(res.job):
            if js != 'alive':
                v.append(dict(kind='job-thread-' + js, stack=j))
        if not all(res.empty):
            v.append(dict(kind='session-left-at-end', empty=res.empty))
        return v
    if sc.get('from_timer'):
        a = sc['from_timer']['a']
        want = tuple(scen.payload(a[5]))
        v = []
        got = [tuple(e[7]) for e in res.trace if e[2] == 'cb' and e[1] == 1]
        if got != [want]:
            v.append(dict(kind='missing-delivery' if not got else 'wrong-or-repeated-delivery', deliveries=len(got), expected_length=len(want)))
        for j, js in enumerate(res.job):
            if js != 'alive':
                v.append(dict(kind='job-thread-' + js, stack=j))
        if not all(res.empty):
            v.append(dict(kind='session-left-at-end', empty=res.empty))
        return v
    return oracle_tp.check_exactly_once(sc, res)


def explore(out, tier, second=0):
    worst = {}
    holds = [700] if tier == 'quick' else [200, 700, 5000]
    n = 0
    for sc in list(shapes(tier)) + list(reuse_shapes()) + list(chain_shapes()):
        base = scen.run(dict(sc))
        if oracle(sc, base):
            worst.setdefault('baseline-' + oracle(sc, base)[0]['kind'], (oracle(sc, base)[0], sc))
            continue
        for h, held, res in sweep(sc, holds, step=(2 if tier == 'quick' and sc['dll'] == 'j1939-21' and sc['win'] == 2 else 1)):
            if held is None:
                continue
            n += 1
            out.add_case((sc['dll'], sc['kind'], sc['win'], bool(sc.get('from_timer')), json.dumps([sc.get('reuse'), sc.get('chain'), sc.get('bidir')], sort_keys=True) + str(len(sc['script'])) + str(sc['script'][-1]['t']), h['s'], h['k'], h['d']), True,
                         sample=dict(dll=sc['dll'], kind=sc['kind'], window=sc['win'], hold=h, held_at=held) if len(out.samples) < 4 else None)
            for x in oracle(sc, res) + ([] if (sc.get('reuse') or sc.get('chain')) else same_as_undisturbed(base, res)):
                key = x['kind']
                if key not in worst:
                    worst[key] = (dict(x, held_at=held, hold=h), dict(sc, hold=h))
    for sc in shapes(tier):
        if sc['kind'] != 'p2p' or sc.get('from_timer') or sc.get('bidir'):
            continue
        base = scen.run(dict(sc))
        if oracle(sc, base):
            continue
        for h, held, res in reader_sweep(sc, step=(1 if tier != 'quick' or sc['win'] == 2 else 2)):
            if held is None:
                continue
            n += 1
            out.add_case((sc['dll'], sc['kind'], sc['win'], 'reader', h['s'], h['k']), True)
            for x in oracle(sc, res) + same_as_undisturbed(base, res):
                key = x['kind'] + '-with-the-receiving-thread-suspended'
                if key not in worst:
                    worst[key] = (dict(x, kind=key, held_at=held, hold=h), dict(sc, hold=h))
    return worst, n


def same_as_undisturbed(base, res):
    """'the outcome ... is the same wherever the background thread is suspended ... never leaves a session stuck':
    the frames on the bus are those of the undisturbed run (no additional abort, no repeated or missing packet) and the
    stacks are idle again as early as in the undisturbed run, give or take the suspension itself"""
    from collections import Counter
    v = []
    fb = Counter((e[3], tuple(e[6])) for e in base.trace if e[2] == 'tx')
    fr = Counter((e[3], tuple(e[6])) for e in res.trace if e[2] == 'tx')
    extra, missing = fr - fb, fb - fr
    if extra or missing:
        v.append(dict(kind='frames-differ-from-the-undisturbed-run', extra=[(hex(i), list(d)) for (i, d) in list(extra)[:3]],
                      missing=[(hex(i), list(d)) for (i, d) in list(missing)[:3]]))
    lb = max([e[0] for e in base.trace if e[2] == 'tx'] or [0])
    lr = max([e[0] for e in res.trace if e[2] == 'tx'] or [0])
    if lr > lb + 50_000:
        v.append(dict(kind='transfer-ends-later-than-undisturbed', undisturbed_last_frame=lb, last_frame=lr))
    return v


def run(out, tier, rng, work):
    import json
    out.rule = ('exhaustive single pre-emption: for RTS/CTS (windows 1, 2, all) and BAM on both layers, the real job thread of either stack is '
                'parked at its k-th executed line of the package for 0.7 ms (thorough: 0.2, 0.7, 5 ms) of bus time, for EVERY k of the run, '
                'while reception on the same stack goes on; oracle: payload delivered intact exactly once, both sides idle, job threads '
                'alive; plus the reflection theorem on the extracted shared-access skeletons; non-trivial = every hold (each is a distinct schedule)'
                " Plus shapes started from a timer callback and 're-use of the pair' (the next transfer to the same peer is started during the suspension right after the acknowledgement); the other direction: the receiving thread suspended at every line of the frame handlers while the job thread runs a pass; an ECU that is originator and responder at once.")
    out.assumptions = ['pre-emption inside a bytecode / dict operation is not exhibited; the receive thread is suspended at line boundaries of the transport layer frame handlers only (a whole job pass runs meanwhile), not inside the ECU dispatch or the application callbacks',
                       'the rely (which tables other methods delete from) is extracted syntactically; its soundness is covered by the correspondence of table contents (C01/C02)',
                       'serialisability of the send windows (T08.2) is not proved: the outcome level is by exhaustive exploration (testing)']
    out.extra['partial'] = ['T08.2 (commutation of the reply handlers with the rest of the pass) not proved']
    C.std_proof_stage(out, 'C08', FILES)
    worst, n = explore(out, tier)
    out.extra['holds_explored'] = n
    out.extra['exhaustive'] = True
    # corpus: recorded schedules
    import sprop
    for name, sc in sprop.load_corpus('C08'):
        res = runner(sc)
        out.add_case(('corpus', name), True)
        for x in oracle(sc, res):
            worst.setdefault(x['kind'], (dict(x, corpus=name), sc))
    for kind, (x, sc) in worst.items():
        out.violation('%s: %s' % (kind, json.dumps(x, default=str)[:300]), dict(kind=kind), dict(broke='oracle', scenario=sc, violation=x))

"""C03 — a real stack against the active reference peer (see tpconf.py)."""
import json
import common as C
import sprop, tpconf, corr21, scen

FILES = ['theories/Base.v', 'theories/gen/Codec.v', 'theories/gen/Tp21Gen.v', 'theories/gen/CaGen.v', 'theories/CodecGlue.v',
         'theories/Model21.v', 'theories/Replay21.v', 'theories/Sae21.v', 'proofs/CodecProofs.v', 'proofs/Flat.v', 'proofs/Tp21Seg.v',
         'proofs/Tp21Resp.v', 'proofs/Tp21Orig.v', 'proofs/WireProofs.v', 'proofs/PacingProofs.v']
runner = tpconf.runner
oracle = tpconf.oracle_c03


def run(out, tier, rng, work):
    out.rule = ('a real stack (either layer, either role, RTS/CTS and BAM, all size residues, max_cmdt 1..255, optional minimum DT intervals) '
                'against an independent reference peer that draws its free choices from the standard\'s envelope: CTS windows 1..min(limit, '
                'remaining), 0..3 holds spaced < 0.5 s, reply latency 0..150 ms, BAM spacing 50..190 ms (FD 10..190 ms), RTS limit 1..255; '
                'oracle reads the bus: decode by the reference layouts / window and pacing discipline / grants; J1939-21 handler logs '
                'replayed on the Coq model; non-trivial = the transfer ran (TP frames on the bus)'
                ' Every fourth scenario: FD with the last segment on both sides of every CAN-FD length step; every fourth: J1939-21 responder with sizes at multiples of 7 and a partial last window; cyclic application timers in 30 %.')
    out.assumptions = ['A1-A6 of DESIGN.md section 3', 'J1939-22 frames are checked against refpeer layouts by the oracle; the Coq wire theorems cover J1939-21 (FD builders: see C02)']
    C.std_proof_stage(out, 'C03', FILES)
    n = 150 if tier == 'quick' else 3000
    runs, worst = [], {}
    for k in range(n):
        sc = tpconf.gen(rng, k, big=(k % 10 == 0), presend=True)
        res = tpconf.runner(sc)
        runs.append((sc, res))
        out.add_case(scen.sc_hash(sc), sum(1 for e in res.trace if e[2] == 'tx') > 2,
                     sample={a: b for a, b in sc.items() if a in ('dll', 'role', 'bam', 'size', 'max_cmdt', 'cmdt_iv', 'bam_iv', 'plan')} if k < 3 else None)
        for x in oracle(sc, res):
            if x['kind'] not in worst or len(json.dumps(sc)) < len(json.dumps(worst[x['kind']][1])):
                worst[x['kind']] = (x, sc)
    sub = [(dict(tpconf.scen_for_corr(sc)), res) for sc, res in runs if sc['dll'] == 'j1939-21']
    ntr, mism, errors = corr21.correspond(work, sub, tag='c03')
    out.traces_validated = ntr
    for e in errors:
        out.broken.append('correspondence %s did not evaluate: %s' % (e[0], e[1][-300:].replace('\n', ' ')))
    j21 = [sc for sc, res in runs if sc['dll'] == 'j1939-21']
    for (k, j, g) in mism[:5]:
        out.broken.append('correspondence: model and implementation differ in scenario %s' % json.dumps({a: b for a, b in j21[k].items() if a != 'plan'})[:300])
    for kind, (x, sc) in worst.items():
        out.violation('%s: %s' % (kind, json.dumps(x, default=str)[:300]), dict(kind=kind), dict(broke='oracle', scenario=sc, violation=x))

"""sprop.py — shared runner for the stateful properties: proof stage, corpus + generated scenarios on the real
code, oracle, correspondence with the Coq model, search when something broke."""
import os, json, glob
import common as C
import scen, corr21


def load_corpus(prop):
    out = []
    for p in sorted(glob.glob(os.path.join(C.ROOT, 'corpus', prop, '*.json'))):
        out.append((os.path.basename(p), json.load(open(p))))
    return out


def run_stateful(out, prop, tier, rng, work, files, gen, oracle, n_quick, n_thorough, nontrivial,
                 correspond=True, sample=None, search_factor=4, runner=None, proof=True, corr_max=None):
    if proof:
        C.std_proof_stage(out, prop, files)
    n = n_quick if tier == 'quick' else n_thorough
    runs = []
    viol = []
    names = []
    storms = []

    def do(sc, name):
        res = (runner or scen.run)(sc)
        storm = any(e[2] == 'STORM' for e in res.trace)
        runs.append((sc, res))
        names.append(name)
        nt = nontrivial(sc, res)
        out.add_case(scen.sc_hash(sc), nt, sample=(sample(sc, res) if (sample and len(out.samples) < 4) else None))
        try:
            vs = oracle(sc, res)
        except Exception as ex:       # the trace is so far off that the oracle cannot interpret it
            vs = [dict(kind='oracle-cannot-interpret-trace', error='%s: %s' % (type(ex).__name__, ex))]
        if storm and not vs:
            vs = [dict(kind='exchange-never-ends', events=[e[3] for e in res.trace if e[2] == 'STORM'][0])]
        for v in vs:
            viol.append((v, sc, name))
        if storm:
            # an exchange that never ended (cut by the harness after a bound on events): decisive for the oracle, useless and
            # very large for the correspondence — keep the verdict, drop the bulk of the trace
            storms.append(len(runs) - 1)
            res.trace = [e for e in res.trace if e[2] not in ('tx', 'rx', 'wake')][:20000] + [e for e in res.trace if e[2] == 'STORM']
    for name, sc in load_corpus(prop):
        do(sc, 'corpus/' + name)
        if storms:
            break
    for k in range(0 if storms else n):
        do(gen(rng, k), 'gen-%d' % k)
        if any(v.get('kind') == 'handler-did-not-return' for v, _, _ in viol) or storms:
            break           # decisive, and every further scenario that hits the same loop costs wall-clock time
    if correspond:
        # scenarios with injected transmit errors are outside the model (its Emit never fails): oracle only
        keep = [i for i, (sc, res) in enumerate(runs) if not (sc.get('tx_errors') or sc.get('oracle_only')) and i not in storms]
        if corr_max is not None:
            keep = keep[:corr_max]
        cr = [runs[i] for i in keep]
        names = [names[i] for i in keep]
        ntr, mism, errors = corr21.correspond(work, cr, tag=prop.lower())
        out.extra['traces_oracle_only'] = corr21.SKIPPED[0] + (len(runs) - len(keep) if corr_max is None else 0)
        out.traces_validated = ntr
        for e in errors:
            out.broken.append('correspondence %s did not evaluate: %s' % (e[0], e[1][-300:].replace('\n', ' ')))
        for (k, j, g) in mism[:5]:
            sc, res = cr[k]
            try:
                idx, m, im = corr21.first_difference(work, sc, res, j, tag='%s_diff_%d_%d' % (prop.lower(), k, j))
            except Exception as ex:
                idx, m, im = None, str(ex), None
            out.broken.append('correspondence: model and implementation differ in scenario %s stack %d at output index %s (model %s / impl %s)' % (names[k], j, idx, m, im))
            out.extra.setdefault('mismatch_scenarios', []).append(dict(name=names[k], stack=j, scenario=sc, first_difference=idx, model=m, impl=im))
        if len(mism) > 5:
            out.broken.append('correspondence: %d further mismatching traces' % (len(mism) - 5))
    if out.broken and not viol:
        # search: more scenarios through the oracle only
        for k in range(n * search_factor):
            sc = gen(rng, n + k)
            res = (runner or scen.run)(sc)
            out.add_case(scen.sc_hash(sc), nontrivial(sc, res))
            for v in oracle(sc, res):
                viol.append((v, sc, 'search-%d' % k))
            if viol:
                break
    seen = set()
    for v, sc, name in viol:
        key = v.get('kind')
        if key in seen:
            continue
        seen.add(key)
        # the smallest scenario exhibiting this kind
        cands = [(len(json.dumps(s)), s, nm, vv) for (vv, s, nm) in viol if vv.get('kind') == key]
        cands.sort(key=lambda x: x[0])
        _, s, nm, vv = cands[0]
        out.violation('%s in scenario %s: %s' % (key, nm, json.dumps(vv, default=str)[:300]), dict(kind=key),
                      dict(broke='oracle', scenario=s, violation=vv, scenario_name=nm,
                           how='./check replay <this file> re-runs the scenario on /repo and prints the oracle verdict'))
    return runs

"""C17 — DM14 memory access returns and stores exactly the addressed data."""
import json
import common as C
import dm14h, scen

FILES = ['theories/Base.v', 'theories/gen/Dm14Gen.v', 'theories/Dm14Model.v', 'proofs/Dm14Proofs.v', 'theories/Items.v',
         'theories/Dm14Srv.v', 'theories/Dm14Replay.v', 'proofs/Dm14SrvProofs.v',
         'theories/Dm14Cli.v', 'theories/Dm14CliReplay.v', 'proofs/Dm14CliProofs.v', 'proofs/Dm14SrvPhases.v',
         'theories/Dm14Net.v', 'proofs/Dm14NetProofs.v']
runner = dm14h.runner
ITEMS = ['item_dm14_payload', 'item_dm14_fields', 'item_dm15', 'item_dm15_fields', 'item_dm14_v2b', 'item_dm14_b2v', 'item_dm16']


def le_bytes(v, size):
    return [(v >> (8 * k)) & 0xFF for k in range(size)]


def decode(bs, size, signed):
    out = []
    for i in range(len(bs) // size):
        v = sum(b << (8 * k) for k, b in enumerate(bs[i * size:(i + 1) * size]))
        if signed and v >= 1 << (8 * size - 1):
            v -= 1 << (8 * size)
        out.append(v)
    return out


def gen(rng, k):
    ops = []
    seedkey = rng.random() < 0.5
    same = dict(address=rng.choice([0x92000003, 0x10, 0xFFFFFFFF, 0, rng.getrandbits(32)]), direct=rng.choice([0, 1]))
    vary = rng.random() < 0.4
    for i in range(rng.choice([1, 1, 2, 3, 4])):
        if vary:
            same = dict(address=rng.getrandbits(32), direct=rng.choice([0, 1]))
        size = rng.choice([1, 1, 2, 4, 8])
        maxc = 255 // size
        count = rng.choice([1, 1, 2, 3, 7 // size or 1, 8 // size or 1, maxc, rng.randint(1, maxc)])
        count = max(1, min(count, maxc))
        if rng.random() < 0.55:
            data = [rng.choice([0, 0xFF, 0x80, 0x7F, rng.randrange(256)]) for _ in range(count * size)]
            ops.append(dict(kind='read', count=count, size=size, signed=rng.random() < 0.5, raw=rng.random() < 0.4, server_data=data,
                            timeout=3, gap=0.4, **same))
        else:
            vals = [rng.choice([0, (1 << (8 * size)) - 1, 1 << (8 * size - 1), rng.getrandbits(8 * size)]) for _ in range(count)]
            ops.append(dict(kind='write', values=vals, size=size, timeout=3, gap=0.4, **same))
    if rng.random() < 0.3:
        # the serving application answers reads directly from its notification callback (no thread of its own)
        for o in ops:
            if o['kind'] == 'read':
                o['respond_inline'] = True
    sc = dict(kind='dm14', ops=ops, seedkey=seedkey, seeds=[rng.choice([0x0001, 0xFFFE, 0xA55A, rng.randint(1, 0xFFFE)]) for _ in range(10)],
              lat=[rng.choice([1, 500, 5000])], horizon=1000 + len(ops) * 8_000_000, max_cmdt=rng.choice([1, 3, 8, 255]))
    # the two ECUs need not be configured alike: the window of a multi-packet DM16 is negotiated between them
    sc['max_cmdt_server'] = rng.choice([1, 2, 3, 8, 255])
    if len(ops) >= 2 and rng.random() < 0.4:
        # back-to-back requests under a pre-emptive schedule: the calling thread is woken by the result and issues its next
        # request before the receive path of the previous transaction has finished
        for o in ops:
            o['gap'] = 0
        sc['eager_wake'] = True
    return sc


def oracle(sc, res):
    v = []
    if len(res.results) != len(sc['ops']):
        v.append(dict(kind='client-did-not-finish', done=len(res.results), ops=len(sc['ops'])))
    for i, (op, r) in enumerate(zip(sc['ops'], res.results)):
        served = [s for s in res.served if s.get('op') == i]
        pro = [s for s in served if s['ev'] == 'proceed']
        if r[0] != 'ok':
            v.append(dict(kind='operation-raised', op=i, opkind=op['kind'], exc=r[1:], nbytes=(len(op.get('server_data', [])) or len(op.get('values', [])) * op.get('size', 1))))
            continue
        if op['kind'] == 'read':
            exp = list(op['server_data']) if op.get('raw') else decode(op['server_data'], op['size'], op['signed'])
            if r[1] != exp:
                v.append(dict(kind='read-returns-wrong-data', op=i, nbytes=len(op['server_data']), size=op['size'], signed=op['signed'], raw=op.get('raw', False),
                              got=(r[1] or [])[:8], expected=exp[:8]))
        else:
            exp = [b for val in op['values'] for b in le_bytes(val, op['size'])]
            rr = [s for s in served if s['ev'] == 'respond-returned']
            if len(rr) != 1 or rr[0]['data'] != exp:
                v.append(dict(kind='write-hands-wrong-bytes', op=i, nbytes=len(exp), got=(rr[0]['data'] if rr else None), expected=exp[:8],
                              exc=[s for s in served if s['ev'] == 'respond-exc'][:1]))
        if len(pro) != 1:
            v.append(dict(kind='serving-application-not-asked-exactly-once', op=i, times=len(pro)))
        else:
            p = pro[0]
            cnt = op['count'] if op['kind'] == 'read' else len(op['values'])
            want = dict(command=1 if op['kind'] == 'read' else 2, address=op['address'], pointer_type=op.get('direct', 1) & 1, object_count=cnt, sa=dm14h.C_ADDR)
            got = {k2: p[k2] for k2 in want}
            if got != want:
                v.append(dict(kind='serving-application-told-wrong-request', op=i, got=got, expected=want))
            if sc.get('seedkey'):
                seed = sc['seeds'][i] if i < len(sc['seeds']) else None
                if p['key'] != dm14h.key_fn(p['seed']):
                    v.append(dict(kind='key-does-not-match-seed', op=i, key=p['key'], seed=p['seed']))
    st = res.states
    if (st['client_facade'], st['client_query'], st['server_facade'], st['server'], st['server_sa']) != ('IDLE', 'IDLE', 'IDLE', 'IDLE', None):
        v.append(dict(kind='not-idle-afterwards', states=st))
    for j, js in enumerate(res.job):
        if js != 'alive':
            v.append(dict(kind='job-thread-' + js, stack=j))
    if not all(res.empty):
        v.append(dict(kind='transport-session-left'))
    return v

def run(out, tier, rng, work):
    import items, scen, sprop
    out.rule = ('real client facade against real server facade on two real stacks: object count x size = 1..255 bytes (single-frame DM16 up to 7, RTS/CTS above), sizes 1/2/4/8, signed/unsigned, raw/converted, 32-bit pointers, direct/spatial, seed/key on/off with boundary seeds, 1..4 transactions back to back on the same or different objects, latencies (0, 5 ms]; oracle: read returns exactly the served bytes/values, write hands exactly the written bytes, the application is told command/address/pointer type/count/requester, all idle afterwards; item-level correspondence of conversion and layout functions; non-trivial = the client finished at least one operation'
                ' 40 % of the multi-operation histories back to back (gap 0) under the pre-emptive wake schedule.')
    out.assumptions = ['A1-A6 of DESIGN.md section 3', 'the serving side (DM14Server + serving half of MemoryAccess + the CA subscriber list) is modelled as a state machine (theories/Dm14Srv.v) and tied to the code by operation-sequence correspondence; the requesting side likewise (theories/Dm14Cli.v); their composition (theories/Dm14Net.v) is compared with two real facades on two real stacks; the transport under ca.send_pgn is not part of these models']
    out.extra['partial'] = ['end-to-end theorems (C17_read_end_to_end_exact, C17_write_end_to_end_exact_*) quantify over every data content and object size/signedness for single-frame transactions (1..7 bytes) under six concrete address/pointer/seed setups; multi-packet transactions (8..255 bytes, via the transport) and arbitrary addresses are checked on the real code by the oracle']
    C.std_proof_stage(out, 'C17', FILES)
    total, mism, errors = items.run_items(ITEMS, rng, 300 if tier == 'quick' else 3000, work, C)
    out.traces_validated = total
    for e in errors:
        out.broken.append('item correspondence %s did not evaluate: %s' % (e[0], e[1][-200:]))
    for m in mism[:20]:
        out.broken.append('correspondence %s: model and implementation differ on input %s (impl %s)' % (m[0], m[1][:14], m[2][:14]))
    import dm14srv, dm14cli
    dm14srv.stage(out, tier, rng, work, C)
    dm14cli.stage(out, tier, rng, work, C)
    worst = {}
    runs = [(nm, sc) for nm, sc in sprop.load_corpus('C17')] + [('gen-%d' % k, gen(rng, k)) for k in range(120 if tier == 'quick' else 2500)]
    kept = []
    for nm, sc in runs:
        res = runner(sc)
        kept.append((sc, res))
        out.add_case(scen.sc_hash(sc), len(res.results) > 0, sample=dict(ops=[{a: b for a, b in o.items() if a not in ('server_data', 'values')} for o in sc['ops']][:3], results=[r[:2] for r in res.results][:3]) if len(out.samples) < 3 else None)
        for x in oracle(sc, res):
            if x['kind'] not in worst or len(json.dumps(sc)) < len(json.dumps(worst[x['kind']][1])):
                worst[x['kind']] = (x, sc)
    # the composed model of theorems C17_read_end_to_end_exact / C17_write_end_to_end_exact_* (Dm14Net.v) against the two real
    # facades: frames of either side in order, the proceed function's arguments, both return values
    import dm14net
    nn, nmism, nerr = dm14net.run(work, kept, tag='c17net', limit=30 if tier == 'quick' else 300)
    out.extra['end_to_end_model_cases'] = nn
    out.traces_validated += nn
    for name, o in nerr[:3]:
        out.broken.append('end-to-end correspondence %s did not evaluate: %s' % (name, o[-200:].replace('\n', ' ')))
    for sc, i, m, im in nmism[:3]:
        out.broken.append('end-to-end correspondence: composed DM14 model and two real facades differ (first operation %s) at observation %s: model %s / impl %s'
                          % (json.dumps({a: b for a, b in sc['ops'][0].items() if a not in ('server_data', 'values')})[:160], i, str(m)[:120], str(im)[:120]))
    for kind, (x, sc) in worst.items():
        out.violation('%s: %s' % (kind, json.dumps(x, default=str)[:300]), dict(kind=kind), dict(broke='oracle', scenario=sc, violation=x))

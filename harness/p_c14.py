"""C14 — PGN requests reach exactly the addressed operational CAs; claims are answered."""
import common as C
import sprop, gen_ca

FILES = ['theories/Base.v', 'theories/gen/Codec.v', 'theories/gen/Tp21Gen.v', 'theories/gen/CaGen.v', 'theories/CodecGlue.v',
         'theories/Model21.v', 'theories/Replay21.v', 'proofs/CodecProofs.v', 'proofs/Flat.v', 'proofs/Tp21Resp.v',
         'proofs/ClaimProofs.v', 'proofs/CaProofs.v']
NORMAL = 2


def gen(rng, k):
    used = set()

    def addr():
        while True:
            a = rng.choice(gen_ca.IMMEDIATE[:120])
            if a not in used:
                used.add(a)
                return a
    kind = rng.choice(['has', 'has', 'has', 'has', 'none', 'cannot'])
    req_has_addr = kind == 'has'
    ra = addr()
    meta = []
    cid = 10
    script = []
    if kind == 'cannot':
        # the requester is a fixed-address CA that has LOST its address to a lower NAME: it may still request the address-claim PGN
        low = gen_ca.mk_name(rng, False) & ((1 << 40) - 1)
        high = (gen_ca.mk_name(rng, False) | (1 << 62)) & ~(1 << 63)
        stacks = [dict(dll='j1939-21', max_cmdt=1, subs=[], cas=[dict(name=high, addr=ra, bypass=False, subs=[1], req=[2])])]
        script.append(dict(t=1000, s=0, op='ca_start', ca=0, delay=0))
    else:
        stacks = [dict(dll='j1939-21', max_cmdt=1, subs=[], cas=[dict(name=gen_ca.mk_name(rng, True), addr=ra, bypass=req_has_addr, subs=[1], req=[2])])]
    first = True
    for s in range(1, rng.choice([2, 2, 3])):
        cas = []
        for j in range(rng.randint(1, 3)):
            phase = rng.choice(['normal', 'normal', 'normal', 'none', 'wait'])
            a = addr() if phase != 'wait' else rng.choice(gen_ca.VETO[:60])
            while phase == 'wait' and a in used:
                # two CAs waiting on ONE address would contend, and the loser's re-claim is address claiming (C04), not an
                # answer to a request: every CA of a scenario gets its own address
                a = rng.choice(gen_ca.VETO[:60])
            used.add(a)
            if first and kind == 'cannot':
                # the CA that keeps the requester's address (lower NAME, operational from the start)
                phase, a = 'normal', ra
            elif phase == 'normal' and 0 not in used and rng.random() < 0.3:
                a = 0                                   # address 0 is an address like any other
                used.add(0)
            first = False
            reqs = [cid + 1 + x for x in range(rng.randint(1, 2))]
            nm = gen_ca.mk_name(rng, rng.random() < 0.5)
            if kind == 'cannot' and a == ra:
                nm = low
            cas.append(dict(name=nm, addr=a, bypass=(phase == 'normal'), subs=[cid], req=reqs))
            if phase != 'normal' and rng.random() < 0.5:
                # an application-defined CA class with a permissive acceptance filter: without an address it still neither
                # calls back nor answers
                cas[-1]['accept_all'] = True
            elif rng.random() < 0.3:
                # an application-defined CA class that overrides on_request() and registers that method itself
                cas[-1]['own_hook'] = True
            meta.append(dict(stack=s, ca=j, phase=phase, addr=a, reqs=reqs, name=cas[-1]['name'] & ~(1 << 48)))
            cid += 10
            if phase == 'wait':
                script.append(dict(t=1_000_000, s=s, op='ca_start', ca=j, delay=0))     # WAIT_VETO during [1.0 s, 1.25 s)
        stacks.append(dict(dll='j1939-21', max_cmdt=1, subs=[], cas=cas))
    if rng.random() < 0.4:
        # a CA that lost its preferred address A to a lower NAME and now HOLDS A+1: it must answer from the address it holds
        A = rng.randrange(200, 240)
        low = gen_ca.mk_name(rng, False) & ((1 << 40) - 1)
        high = gen_ca.mk_name(rng, True) | (1 << 62)
        s1 = len(stacks)
        stacks.append(dict(dll='j1939-21', max_cmdt=1, subs=[], cas=[dict(name=low, addr=A, bypass=False, subs=[cid], req=[cid + 1])]))
        meta.append(dict(stack=s1, ca=0, phase='normal', addr=A, reqs=[cid + 1], name=low & ~(1 << 48)))
        cid += 10
        stacks.append(dict(dll='j1939-21', max_cmdt=1, subs=[], cas=[dict(name=high, addr=A, bypass=False, subs=[cid], req=[cid + 1])]))
        meta.append(dict(stack=s1 + 1, ca=0, phase='normal', addr=A + 1, reqs=[cid + 1], name=high & ~(1 << 48), moved_from=A))
        cid += 10
        script.append(dict(t=1000, s=s1, op='ca_start', ca=0, delay=0))
        script.append(dict(t=rng.choice([1000, 1200, 100000]), s=s1 + 1, op='ca_start', ca=0, delay=0))
    tx_errors = []
    if rng.random() < 0.25:
        # a fixed-address CA that loses its address to a lower NAME, and whose cannot-claim frame the driver refuses
        # (can.CanError from send): it holds no address all the same — no callbacks, no answers from it
        B = addr()
        low = gen_ca.mk_name(rng, False) & ((1 << 40) - 1)
        high = (gen_ca.mk_name(rng, False) | (1 << 62)) & ~(1 << 63)
        s1 = len(stacks)
        stacks.append(dict(dll='j1939-21', max_cmdt=1, subs=[], cas=[dict(name=low, addr=B, bypass=False, subs=[cid], req=[cid + 1])]))
        meta.append(dict(stack=s1, ca=0, phase='normal', addr=B, reqs=[cid + 1], name=low & ~(1 << 48)))
        cid += 10
        stacks.append(dict(dll='j1939-21', max_cmdt=1, subs=[], cas=[dict(name=high, addr=B, bypass=False, subs=[cid], req=[cid + 1])]))
        meta.append(dict(stack=s1 + 1, ca=0, phase='cannot', addr=None, reqs=[cid + 1], name=high & ~(1 << 48)))
        cid += 10
        script.append(dict(t=1000, s=s1, op='ca_start', ca=0, delay=0))
        script.append(dict(t=20000, s=s1 + 1, op='ca_start', ca=0, delay=0))
        tx_errors.append(dict(s=s1 + 1, nth=2))
    two = [m for m in meta if m['phase'] == 'normal' and len(m['reqs']) == 2 and 'moved_from' not in m]
    if two and rng.random() < 0.35:
        # a request callback taken off again before the requests arrive (handed over as a fresh bound-method object, as an
        # application's ca.unsubscribe_request(self.on_request) is): it is no request callback of that CA any more
        m = rng.choice(two)
        gone = rng.choice(m['reqs'])
        script.append(dict(t=900_000, s=m['stack'], op='ca_unsubscribe_request', ca=m['ca'], cid=gone))
        m['reqs'] = [c for c in m['reqs'] if c != gone]
        m['unsubscribed'] = gone
    same_addr = False
    probe = [m for m in meta if m['phase'] == 'normal' and m['addr'] is not None and stacks[m['stack']]['cas'][m['ca']]['bypass']
             and not any(c['addr'] == m['addr'] and not c['bypass'] for sd in stacks for c in sd['cas'])]
    if kind == 'has' and probe and not tx_errors and rng.random() < 0.12:
        # the requester uses the very address of one of the CAs it asks (a tester probing an address from that address; both were
        # configured without claiming): a request is served whatever its source address
        same_addr = True
        ra = rng.choice(probe)['addr']
        stacks[0]['cas'][0]['addr'] = ra
    owned = [m['addr'] for m in meta if m['addr'] is not None]
    for _ in range(rng.randint(1, 5)):
        t = 1_000_000 + rng.randint(2000, 200000)
        pgn = rng.choice([0xEE00, 0xFECA, 0xFEDA, 0, 0x3FFFF, 0x1FFFF, 0x10000, rng.getrandbits(18),
                          0xEE01, 0xEEFF, 0xEE00 + rng.randrange(256), 0x2EE00, 0x1EE00 + rng.randrange(256)])   # neighbours of the address-claim PGN
        dest = rng.choice(owned + owned + [255, 255, rng.choice([x for x in range(254) if x not in used]), 254])      # (254: the null address is nobody's)
        dp = rng.choice([0, 0, 0, 1])
        if not req_has_addr:
            pgn = rng.choice([0xEE00, 0xEE00, 0xFECA])
        if same_addr:
            pgn = rng.choice([0xFECA, 0xFEDA, 0, 0x3FFFF, rng.getrandbits(16)])      # (no claim exchange between the two: they never contend)
            if (pgn & 0xFF00) == 0xEE00:
                pgn = 0xFECA
        if req_has_addr and dest != 255 and dest in owned and rng.random() < 0.35 and not any(c.get('accept_all') for sd in stacks for c in sd['cas']):
            # the requester has a multi-packet transfer to the same destination in progress when it sends the request
            script.append(dict(t=t, s=0, op='ca_send', ca=0, a=[0, 0xD0, dest, 6, dict(seed=rng.getrandbits(20), len=rng.choice([9, 20]))]))
        script.append(dict(t=t, s=0, op='ca_request', ca=0, a=[dp, pgn, dest]))
    horizon = 1_240_000
    waiting = [m for m in meta if m['phase'] == 'wait']
    if waiting and req_has_addr and rng.random() < 0.6:
        # ... and once more when the waiting CAs have become operational (250 ms after their claim): from then on they own
        # their addresses like any other CA — whatever traffic for those addresses went by while they were still waiting
        for m in waiting:
            script.append(dict(t=1_300_000 + rng.randint(0, 100000), s=0, op='ca_request', ca=0,
                               a=[0, rng.choice([0xFEE0 + m['ca'], 0xEE00 if not same_addr else 0xFEE4 + m['ca']]), rng.choice([m['addr'], m['addr'], 255])]))
        horizon = 1_560_000
    script.sort(key=lambda e: e['t'])
    sc = dict(stacks=stacks, lat=[rng.choice([0, 1, 5000])], jit=[1], script=script, horizon=horizon, meta=meta, requester=dict(addr=ra, has=req_has_addr))
    if tx_errors:
        sc['tx_errors'] = tx_errors
    if any(c.get('accept_all') for sd in stacks for c in sd['cas']):
        sc['oracle_only'] = True        # the permissive filter also widens what the ECU accepts: outside the model
    return sc


def oracle(sc, res):
    from collections import Counter
    v = []
    exp_req = Counter()
    exp_claims = Counter()
    safety_only = set()
    for ev, r in res.returns:
        if ev['op'] != 'ca_request':
            continue
        dp, pgn, dest = ev['a']
        raised = isinstance(r, Exception)
        if not sc['requester']['has']:
            if pgn != 0xEE00:
                if not raised:
                    v.append(dict(kind='request-without-address-not-refused', pgn=pgn))
                continue
            src = 254
        else:
            src = sc['requester']['addr']
        if raised:
            v.append(dict(kind='request-refused', pgn=pgn, exc=type(r).__name__))
            continue
        if dp == 1:
            safety_only.add((src, dest, pgn))
            continue
        for m in sc['meta']:
            operational = m['phase'] == 'normal' or (m['phase'] == 'wait' and ev['t'] >= 1_260_000)
            if operational and (m['addr'] == dest or dest == 255):
                if pgn & 0xFFFFFF == 0xEE00:
                    exp_claims[(m['stack'], m['addr'], m['name'])] += 1
                else:
                    for cb in m['reqs']:
                        exp_req[(m['stack'], cb, src, dest, pgn & 0xFFFFFF)] += 1
    obs_req = Counter()
    for e in res.trace:
        if e[2] == 'req':
            obs_req[(e[1], e[3], e[4], e[5], e[6])] += 1
    obs_claims = Counter()
    for e in res.trace:
        if e[2] == 'tx' and e[1] != 0 and ((e[3] >> 8) & 0xFFFF) == 0xEEFF and e[0] > 1_000_500:
            nm = sum(b << (8 * k) for k, b in enumerate(e[6]))
            obs_claims[(e[1], e[3] & 0xFF, nm)] += 1
    # the CAs in 'wait' phase send their own initial claim at t = 1.0 s (excluded by the time filter above)
    for k in exp_req:
        if obs_req.get(k, 0) != exp_req[k]:
            v.append(dict(kind='request-callback-missing-or-repeated', key=k, expected=exp_req[k], observed=obs_req.get(k, 0)))
    for k in obs_req:
        if k not in exp_req:
            src, dest, pgn = k[2], k[3], k[4]
            owner_ok = any(m['stack'] == k[0] and k[1] in m['reqs'] and m['phase'] in ('normal', 'wait') and (m['addr'] == dest or dest == 255) for m in sc['meta'])
            if not owner_ok:
                v.append(dict(kind='request-callback-at-unaddressed-ca', key=k))
            elif (src, dest, pgn) not in safety_only:
                v.append(dict(kind='request-callback-unexpected', key=k))
    for k in exp_claims:
        if obs_claims.get(k, 0) < exp_claims[k]:
            v.append(dict(kind='claim-request-not-answered', key=k, expected=exp_claims[k], observed=obs_claims.get(k, 0)))
    for k in obs_claims:
        if obs_claims[k] > exp_claims.get(k, 0):
            v.append(dict(kind='claim-answer-unexpected', key=k, expected=exp_claims.get(k, 0), observed=obs_claims[k]))
    for j, js in enumerate(res.job):
        if js != 'alive':
            v.append(dict(kind='job-thread-' + js, stack=j))
    return v


def reacting_cases(rng, n):
    """request callbacks that DO something: (a) one that fails once — the next request is served like the first; (b) on a bus
    that delivers at once, the callback of the first CA sends a message to a third node, which answers this ECU with a message
    of its own before that callback has returned — the second CA is still called back with the REQUESTER's address"""
    for k in range(n):
        R_, X, Y, Z = rng.sample(range(0x10, 0xF0), 4)
        pgn = rng.choice([0xFECA, 0xFEDA, 0x1234, 0x3FFFF])
        if k % 2 == 0:
            stacks = [dict(dll='j1939-21', max_cmdt=1, subs=[], cas=[dict(name=5, addr=R_, bypass=True, subs=[1], req=[2])]),
                      dict(dll='j1939-21', max_cmdt=1, subs=[], cas=[dict(name=6, addr=X, bypass=True, subs=[10], req=[11, 12],
                                                                         req_scripts={'11': [dict(op='raise', once='boom')]})])]
            dests = [rng.choice([X, 255]) for _ in range(3)]
            script = [dict(t=1000 + 50000 * i, s=0, op='ca_request', ca=0, a=[0, pgn + i, d]) for i, d in enumerate(dests)]
            yield dict(stacks=stacks, lat=[rng.choice([0, 1, 500])], jit=[1], script=script, horizon=400000,
                       meta=dict(kind='callback-fails-once', requester=R_, X=X, pgns=[pgn + i for i in range(3)], dests=dests))
        else:
            stacks = [dict(dll='j1939-21', max_cmdt=1, subs=[], cas=[dict(name=5, addr=R_, bypass=True, subs=[1], req=[2])]),
                      dict(dll='j1939-21', max_cmdt=1, subs=[], cas=[dict(name=6, addr=X, bypass=True, subs=[10], req=[11],
                                                                         req_scripts={'11': [dict(op='send', a=[0, 0xD5, Z, 6, X, [1, 2, 3]])]}),
                                                                    dict(name=7, addr=Y, bypass=True, subs=[20], req=[21])]),
                      dict(dll='j1939-21', max_cmdt=1, subs=[dict(cid=30, filt=Z, script=[dict(op='send', a=[0, 0xD6, rng.choice([X, Y]), 6, Z, [4, 5]])])], cas=[])]
            script = [dict(t=1000, s=0, op='ca_request', ca=0, a=[0, pgn, 255]), dict(t=60000, s=0, op='ca_request', ca=0, a=[0, pgn + 1, Y])]
            yield dict(stacks=stacks, lat=[0], jit=[1], script=script, horizon=400000,
                       meta=dict(kind='callback-talks', requester=R_, X=X, Y=Y, Z=Z, pgn=pgn))


def renamed_cases(rng, n):
    """a responder whose application changes a field of its NAME (the identity number) after the CA has already announced itself
    and answered a request for the address-claim PGN: the next answer carries the NAME the CA has NOW"""
    for k in range(n):
        R_, X = rng.sample(range(0x10, 0xF0), 2)
        bypass = k % 2 == 0
        base = (rng.getrandbits(40) << 21) & ~(1 << 48) & ((1 << 63) - 1)
        id1, id2 = rng.sample(range(1, 1 << 21), 2)
        stacks = [dict(dll='j1939-21', max_cmdt=1, subs=[], cas=[dict(name=5, addr=R_, bypass=True, subs=[1], req=[2])]),
                  dict(dll='j1939-21', max_cmdt=1, subs=[], cas=[dict(name=base | id1, addr=X, bypass=bypass, subs=[10], req=[11])])]
        script = ([] if bypass else [dict(t=1000, s=1, op='ca_start', ca=0, delay=0)]) + \
                 [dict(t=600000, s=0, op='ca_request', ca=0, a=[0, 0xEE00, rng.choice([X, 255])]),
                  dict(t=800000, s=1, op='ca_set_identity', ca=0, value=id2),
                  dict(t=1000000, s=0, op='ca_request', ca=0, a=[0, 0xEE00, rng.choice([X, 255])])]
        yield dict(stacks=stacks, lat=[rng.choice([1, 500])], jit=[1], script=script, horizon=1_500_000, oracle_only=True,
                   meta=dict(kind='renamed-responder', X=X, before=base | id1, after=base | id2))


def reacting_oracle(sc, res):
    from collections import Counter
    m, v = sc['meta'], []
    if m['kind'] == 'renamed-responder':
        ans = [(e[0], sum(b << (8 * i) for i, b in enumerate(e[6]))) for e in res.trace
               if e[2] == 'tx' and e[1] == 1 and ((e[3] >> 8) & 0xFFFF) == 0xEEFF and (e[3] & 0xFF) == m['X']]
        first = [nm for t, nm in ans if 600000 <= t < 800000]
        second = [nm for t, nm in ans if t >= 1000000]
        mask = ~(1 << 48)
        if [nm & mask for nm in first] != [m['before'] & mask] or [nm & mask for nm in second] != [m['after'] & mask]:
            v.append(dict(kind='claim-answer-does-not-carry-the-name-the-ca-has-now', first=[hex(x) for x in first], second=[hex(x) for x in second],
                          before=hex(m['before']), after=hex(m['after'])))
        return v
    obs = Counter((e[3], e[4], e[5], e[6]) for e in res.trace if e[2] == 'req' and e[1] == 1)
    if m['kind'] == 'callback-fails-once':
        # (the request during which the application's callback failed is the application's business; the later ones are not)
        for i in (1, 2):
            for cb in (11, 12):
                k = (cb, m['requester'], m['dests'][i], m['pgns'][i])
                if obs.get(k, 0) != 1:
                    v.append(dict(kind='request-after-a-failed-callback-not-served', callback=cb, request=i, observed=obs.get(k, 0), meta=m))
    else:
        exp = Counter({(11, m['requester'], 255, m['pgn']): 1, (21, m['requester'], 255, m['pgn']): 1, (21, m['requester'], m['Y'], m['pgn'] + 1): 1})
        if obs != exp:
            v.append(dict(kind='request-callbacks-differ-when-a-callback-talks-on-the-bus', observed=sorted(obs.items()), expected=sorted(exp.items()), meta=m))
    for j, js in enumerate(res.job):
        if js != 'alive':
            v.append(dict(kind='job-thread-' + js, stack=j))
    return v


def scenario_runner(sc):
    import scen
    return scen.run(sc)


def scenario_oracle(sc, res):
    if isinstance(sc.get('meta'), dict) and sc['meta'].get('kind') in ('callback-fails-once', 'callback-talks', 'renamed-responder'):
        return reacting_oracle(sc, res)
    return oracle(sc, res)


def nontrivial(sc, res):
    return any(e[2] == 'req' for e in res.trace) or any(e[2] == 'tx' and e[1] != 0 and e[0] > 1_000_500 for e in res.trace)


def run(out, tier, rng, work):
    out.rule = ('requester CA with or without an address; 1-2 responder stacks with 1-3 CAs each in phases operational / not started / '
                'waiting for veto, 1-2 request callbacks each; 1-5 requests, PGNs on boundaries, random and EE00, data page 0/1, destinations '
                'owned, global and unowned; oracle: callbacks exactly at the operational owners (once per callback, with requester SA, '
                'destination, PGN), EE00 answered by address-claimed frames with the NAME from the address, nothing from CAs without address; '
                'dp=1: safety half only; handler logs replayed on the Coq model; non-trivial = some answer happened'
                ' Plus request callbacks that fail once or talk on the bus themselves (oracle only).  Request PGNs include the neighbours of the address-claim PGN; a family in which a fixed-address CA loses its address and its cannot-claim frame is refused by the driver (can.CanError).')
    out.assumptions = ['A1-A6 of DESIGN.md section 3', 'data page 1 requests are sent as PGN 0x1EA00 which receivers treat as an ordinary PDU1 message (recorded reading, DESIGN.md C14)']
    sprop.run_stateful(out, 'C14', tier, rng, work, FILES, gen, oracle, 150, 2500, nontrivial,
                       sample=lambda sc, res: dict(meta=sc['meta'][:3], requests=[e['a'] for e in sc['script'] if e['op'] == 'ca_request'][:3]))
    import scen as _scen
    for sc in list(reacting_cases(rng, 12 if tier == 'quick' else 120)) + list(renamed_cases(rng, 8 if tier == 'quick' else 80)):
        res = _scen.run(sc)
        out.add_case(_scen.sc_hash(sc), True)
        for x in reacting_oracle(sc, res)[:1]:
            out.violation('%s: %s' % (x['kind'], str(x)[:250]), dict(kind=x['kind']), dict(broke='oracle', scenario=sc, violation=x, scenario_name='reacting-callbacks',
                          how='./check replay <this file> re-runs the scenario on /repo and prints the oracle verdict'))
            break

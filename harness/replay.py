"""replay.py — ./check replay <file>: re-run a replay file on the current /repo and print observed vs expected."""
import json, importlib


def main(path):
    r = json.load(open(path))
    prop = r.get('property')
    print('replay of', path, 'property', prop, 'broke', r.get('broke'))
    if 'scenario' in r:
        import scen
        mod = importlib.import_module('p_' + prop.lower())
        runner = getattr(mod, 'scenario_runner', None) or getattr(mod, 'runner', None) or scen.run
        res = runner(r['scenario'])
        orc = getattr(mod, 'scenario_oracle', None) or getattr(mod, 'oracle', None)
        viol = orc(r['scenario'], res) if orc else []
        for e in res.trace[-40:]:
            print('  trace', e)
        print('job threads:', res.job, 'tables empty:', res.empty)
        if viol:
            print('VIOLATION reproduced:', json.dumps(viol[:3], default=str))
            return 1
        print('no violation on the current tree (recorded one was: %s)' % json.dumps(r.get('violation'), default=str)[:300])
        return 0
    if 'dm14_server_case' in r:
        import dm14srv
        case = r['dm14_server_case']
        case['ops'] = [tuple(o) for o in case['ops']]
        recs = dm14srv.run_impl(case)
        viol = [x for x in dm14srv.check_theorems(case, recs, dm14srv.initial_summary(case)) if x[0] == prop]
        for i, (op, rec) in enumerate(zip(case['ops'], recs)):
            outs, ret, sm = dm14srv.split_record(rec)
            print('  op', i, str(op)[:100], '->', outs[:3], ret, {k: v for k, v in dm14srv.decode_summary(sm).items() if k in ('sa', 'state', 'a_state', 'busy', 'addr')})
        if viol:
            print('VIOLATION reproduced:', json.dumps(viol[:3], default=str)[:600])
            return 1
        print('no violation on the current tree (recorded one was: %s)' % json.dumps(r.get('violation'), default=str)[:300])
        return 0
    if 'input' in r:
        print('recorded input:', r['input'], 'observed:', r.get('observed'), 'expected:', r.get('expected'))
        print('re-running the property oracle on the current tree:')
        import subprocess, sys, os
        return subprocess.call([os.path.join(os.path.dirname(os.path.dirname(os.path.abspath(__file__))), 'check'), prop, '--tier', 'quick'])
    print(json.dumps(r, indent=1)[:3000])
    return 0

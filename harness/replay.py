"""replay.py — ./check replay <file>: re-run a replay file on the current /repo and print observed vs expected."""
import json, importlib


def main(path):
    r = json.load(open(path))
    prop = r.get('property')
    print('replay of', path, 'property', prop, 'broke', r.get('broke'))
    if 'scenario' in r:
        import scen
        mod = importlib.import_module('p_' + prop.lower())
        runner = getattr(mod, 'runner', None) or scen.run
        res = runner(r['scenario'])
        orc = getattr(mod, 'oracle', None)
        viol = orc(r['scenario'], res) if orc else []
        for e in res.trace[-40:]:
            print('  trace', e)
        print('job threads:', res.job, 'tables empty:', res.empty)
        if viol:
            print('VIOLATION reproduced:', json.dumps(viol[:3], default=str))
            return 1
        print('no violation on the current tree (recorded one was: %s)' % json.dumps(r.get('violation'), default=str)[:300])
        return 0
    if 'input' in r:
        print('recorded input:', r['input'], 'observed:', r.get('observed'), 'expected:', r.get('expected'))
        print('re-running the property oracle on the current tree:')
        import subprocess, sys, os
        return subprocess.call([os.path.join(os.path.dirname(os.path.dirname(os.path.abspath(__file__))), 'check'), prop, '--tier', 'quick'])
    print(json.dumps(r, indent=1)[:3000])
    return 0
